#!/venv/bin/python
"""Single CLI for all checks:  run.py <Cxx> [--tier quick|thorough] [--replay file]

Env: VERIF_SEED (default 0), VERIF_TIER (overrides --tier), VERIF_REPO (default /repo, only the
monitor self-tests point it elsewhere), VERIF_JOBS (default 16).
"""
import argparse
import os
import sys

sys.path.insert(0, os.path.dirname(os.path.abspath(__file__)))
sys.dont_write_bytecode = True


def main():
    ap = argparse.ArgumentParser()
    ap.add_argument("property")
    ap.add_argument("--tier", default=None)
    ap.add_argument("--replay", default=None)
    args = ap.parse_args()
    tier = os.environ.get("VERIF_TIER") or args.tier or "quick"
    if tier not in ("quick", "thorough"):
        tier = "quick"
    try:
        seed = int(os.environ.get("VERIF_SEED", "0"))
    except ValueError:
        seed = 0
    from vf.common import setup_repo_path
    setup_repo_path()
    from vf import runner
    rc = runner.run_check(args.property.upper(), tier, seed, replay=args.replay)
    sys.exit(rc)


if __name__ == "__main__":
    main()
