#!/usr/bin/env python3
"""tools/try_mutant.py <mutant.json|name> <Cxx> [...]: apply a textual mutation to a scratch copy of
/repo and run the given checks (quick tier) against it via VERIF_REPO.  Mutant = {"file", "old",
"new", "why"} (or a list of such edits).  Prints one line per check; exit = number of checks that did
not report a violation.  The real evidence files are saved and restored around the run."""
import json, os, shutil, subprocess, sys, tempfile

def main():
    path = sys.argv[1]
    if not os.path.exists(path):
        path = f"/verif/mutants/{path}.json"
    mut = json.load(open(path))
    edits = mut if isinstance(mut, list) else [mut]
    tmp = tempfile.mkdtemp(prefix="mut.", dir="/tmp")
    try:
        subprocess.run(["rsync", "-a", "--exclude", ".git", "/repo/", tmp + "/"], check=True)
        for e in edits:
            p = os.path.join(tmp, e["file"])
            s = open(p).read()
            if s.count(e["old"]) != 1:
                print(f"mutant does not apply: {e['file']}: old text occurs {s.count(e['old'])} times")
                return 99
            open(p, "w").write(s.replace(e["old"], e["new"]))
        missed = 0
        for c in sys.argv[2:]:
            ev = f"/verif/evidence/{c}.json"
            saved = open(ev).read() if os.path.exists(ev) else None
            env = dict(os.environ, VERIF_REPO=tmp)
            r = subprocess.run(["/venv/bin/python", "run.py", c, "--tier", os.environ.get("TIER", "quick")],
                               cwd="/verif", env=env, stdout=subprocess.PIPE, stderr=subprocess.STDOUT)
            out = r.stdout.decode()
            first = next((l for l in out.splitlines() if "mechanism=" in l), "")[:220]
            print(f"{os.path.basename(path)} {c} rc={r.returncode} {first}")
            if r.returncode != 1:
                missed += 1
                print("   last line:", out.strip().splitlines()[-1][:200] if out.strip() else "")
            if saved is not None:
                open(ev, "w").write(saved)
        return missed
    finally:
        shutil.rmtree(tmp, ignore_errors=True)

sys.exit(main())
