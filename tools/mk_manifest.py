import json
checks = json.load(open('/verif/checks_table.json'))
props = [json.loads(l) for l in open('/verif/properties.jsonl')]
base = "cd /repo && /venv/bin/python -m pytest -ra -q -p no:cacheprovider --timeout=900 --continue-on-collection-errors"
man = {
 "version": 1,
 "setup_cmd": "cd /verif && /venv/bin/python -m vf.selftest",
 "hooks": {"guard": "AMARANTH_VERIF", "enable": "no repository hooks are needed: all instrumentation is installed at run time from /verif (vf/instrument.py); the guard name is reserved and exported by the runner", "baseline_off_cmd": base, "source_commits": [], "add_only": True},
 "engines": [
  {"name": "E1-E3 generators, reference models, sim harness", "path": "vf/", "serves_properties": [c["property_id"] for c in checks], "kind_free_text": "reference-model monitors and invariant hooks over generated and enumerated workloads run on the real simulator / elaborator"},
 ],
 "checks": [],
 "not_applicable": [],
 "notes": "Runtime monitoring only. See DESIGN.md.",
}
claimed = set()
for c in checks:
    pid = c["property_id"]
    claimed.add(pid)
    man["checks"].append({
      "property_id": pid,
      "quick_cmd": f"cd /verif && /venv/bin/python run.py {pid} --tier quick",
      "thorough_cmd": f"cd /verif && /venv/bin/python run.py {pid} --tier thorough",
      "evidence_file": f"/verif/evidence/{pid}.json",
      "replay_cmd_template": f"cd /verif && /venv/bin/python run.py {pid} --replay {{path}}",
      "engine": "vf",
      "level_claimed": {"category": "exploration", "text": c["text"], "design_ref": c.get("design_ref", f"DESIGN.md §5 {pid}")},
      "level_note": c["note"],
      "technique": c["technique"],
    })
for p in props:
    if p["id"] not in claimed:
        man["not_applicable"].append({"property_id": p["id"], "reason": "check not built yet in this session (runtime monitoring applies; see DESIGN.md §5); not claimed until its monitor exists and is silent on the unchanged tree"})
json.dump(man, open('/verif/MANIFEST.json','w'), indent=1)
print(len(man["checks"]), "claimed;", len(man["not_applicable"]), "not claimed")
