#!/usr/bin/env python3
"""tools/add_finding.py <property> <key> <status> <description> [witness-json] [predicate]"""
import json, sys
p = '/verif/known_findings.json'
d = json.load(open(p))
prop, key, status, desc = sys.argv[1:5]
wit = json.loads(sys.argv[5]) if len(sys.argv) > 5 and sys.argv[5] else None
pred = sys.argv[6] if len(sys.argv) > 6 else None
e = {"property": prop, "key": key, "status": status, "predicate": pred, "description": desc, "witness": wit}
if status.startswith("fixed"):
    e["line"] = f"fixed: property={prop} {status.split()[-1]} {desc}"
d["findings"] = [x for x in d["findings"] if not (x["property"] == prop and x["key"] == key)] + [e]
json.dump(d, open(p, 'w'), indent=1)
