#!/usr/bin/env python3
"""tools/seed_matrix.py [extra Cxx ...]: run every seeded defect against the check of its own property
(quick tier, scratch copy of /repo selected with VERIF_REPO) and write seeded/RESULTS.json + RESULTS.md."""
import json, os, subprocess, sys, glob, re
rows = []
for d in sorted(glob.glob("/verif/seeded/*/")):
    name = os.path.basename(d.rstrip("/"))
    prop = name.split("-")[0]
    meta = json.load(open(d + "meta.json"))
    check = prop
    note = ""
    if os.path.exists(d + "check.txt"):
        # the change was filed under one property but the behaviour it breaks is decided by another property's check
        first, _, note = open(d + "check.txt").read().strip().partition(" ")
        check = first
    if check == "NONE":
        rows.append({"seed": name, "property": prop, "check": "-", "note": note, "caught": False, "rc": None, "mechanism": None,
                     "violations": None, "summary": meta.get("summary", "")[:300], "needs": meta.get("needs", "")[:300]})
        print(name, "NOT CAUGHT (out of reach):", note[:80], flush=True)
        continue
    r = subprocess.run(["python3", "/verif/tools/try_seed.py", name, check], stdout=subprocess.PIPE, stderr=subprocess.STDOUT, cwd="/verif")
    out = r.stdout.decode()
    m = re.search(r"rc=(\d+).*?\smechanism=(\S+)", out)
    nv = re.search(r"violations=(\d+)", out)
    rc = int(re.search(r"rc=(\d+)", out).group(1)) if re.search(r"rc=(\d+)", out) else -1
    rows.append({"seed": name, "property": prop, "check": check, "note": note, "caught": rc == 1, "rc": rc,
                 "mechanism": m.group(2) if m else None, "violations": int(nv.group(1)) if nv else None, "summary": meta.get("summary", "")[:300], "needs": meta.get("needs", "")[:300]})
    print(name, "CAUGHT" if rc == 1 else f"MISSED rc={rc}", m.group(2) if m else "", flush=True)
json.dump(rows, open("/verif/seeded/RESULTS.json", "w"), indent=1)
with open("/verif/seeded/RESULTS.md", "w") as f:
    f.write("# Seeded defects vs checks (quick tier)\n\n| seed | check | caught | violations in the quick run | first mechanism reported | what was changed |\n|---|---|---|---|---|---|\n")
    for r in rows:
        f.write(f"| {r['seed']} | {r['check']} | {'yes' if r['caught'] else 'NO'} | {r.get('violations')} | {r['mechanism'] or ''} | {(('[decided by ' + r['check'] + ': ' + r['note'] + '] ') if r.get('note') else '') + r['summary'].replace('|', '/')[:160]} |\n")
print(sum(r["caught"] for r in rows), "/", len(rows), "caught")
