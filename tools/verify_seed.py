#!/usr/bin/env python3
"""tools/verify_seed.py <seed_dir> <name>: confirm a sub-agent's seeded defect independently and file it.

In a fresh scratch worktree of /repo (HEAD): apply patch.diff, run the pinned test-suite (all 1002
baseline tests must still pass), run demo.py (must fail), revert, run demo.py (must pass).  On
success copy patch.diff, demo.py and an augmented meta.json to /verif/seeded/<name>/.  The worktree is
removed in every case."""
import json, os, shutil, subprocess, sys, tempfile

seed_dir, name = sys.argv[1], sys.argv[2]
wt = tempfile.mkdtemp(prefix="seedwt.", dir="/tmp")
os.rmdir(wt)


def sh(cmd, **kw):
    return subprocess.run(cmd, shell=True, stdout=subprocess.PIPE, stderr=subprocess.STDOUT, **kw)


def demo():
    return sh(f"cd {wt} && PYTHONPATH={wt} timeout 600 /venv/bin/python {seed_dir}/demo.py")


ok = False
log = {}
try:
    r = sh(f"git -C /repo worktree add --detach {wt} HEAD")
    assert r.returncode == 0, r.stdout
    r = sh(f"git -C {wt} apply --3way {seed_dir}/patch.diff || git -C {wt} apply {seed_dir}/patch.diff")
    log["apply"] = r.returncode
    if r.returncode != 0:
        print("patch does not apply:", r.stdout.decode()[-500:])
        sys.exit(2)
    sh(f"git -C {wt} reset -q")
    r = sh(f"python3 /verif/tools/check_baseline.py {wt}")
    log["baseline"] = r.stdout.decode().strip().splitlines()[0] if r.stdout else ""
    base_ok = r.returncode == 0
    r = demo()
    log["demo_with_patch_rc"] = r.returncode
    log["demo_with_patch_tail"] = r.stdout.decode()[-400:]
    sh(f"git -C {wt} checkout -- . && git -C {wt} clean -fdq")
    r2 = demo()
    log["demo_clean_rc"] = r2.returncode
    ok = base_ok and r.returncode != 0 and r2.returncode == 0
    print(json.dumps(log, indent=1))
    if ok:
        dst = f"/verif/seeded/{name}"
        os.makedirs(dst, exist_ok=True)
        shutil.copy(f"{seed_dir}/patch.diff", dst)
        shutil.copy(f"{seed_dir}/demo.py", dst)
        meta = {}
        try:
            meta = json.load(open(f"{seed_dir}/meta.json"))
        except Exception:
            pass
        meta["confirmed"] = {"repo_head": sh("git -C /repo rev-parse --short HEAD").stdout.decode().strip(),
                             "baseline": log["baseline"], "demo_with_patch_rc": log["demo_with_patch_rc"],
                             "demo_clean_rc": 0,
                             "ran": "tools/verify_seed.py: scratch worktree, git apply, tools/check_baseline.py, demo.py with and without the patch"}
        json.dump(meta, open(f"{dst}/meta.json", "w"), indent=1)
        print("FILED", dst)
    else:
        print("NOT CONFIRMED")
finally:
    sh(f"git -C /repo worktree remove --force {wt}")
    shutil.rmtree(wt, ignore_errors=True)
sys.exit(0 if ok else 1)
