#!/usr/bin/env python3
"""tools/check_baseline.py [repo_dir]: run the pinned test suite in repo_dir (default /repo) and
report every test of BASELINE.stable_pass that did not pass.  Exit 0 iff all 1002 still pass."""
import json, os, subprocess, sys, tempfile
import xml.etree.ElementTree as ET

repo = os.path.abspath(sys.argv[1] if len(sys.argv) > 1 else "/repo")
base = json.load(open("/root/.vp/BASELINE.json"))
want = set(base["stable_pass"])
fd, xml = tempfile.mkstemp(suffix=".xml")
os.close(fd)
env = dict(os.environ)
env.pop("AMARANTH_VERIF", None)
subprocess.run(["/venv/bin/python", "-m", "pytest", "-q", "-p", "no:cacheprovider", "--timeout=900",
                "--continue-on-collection-errors", f"--junitxml={xml}"], cwd=repo, env=env,
               stdout=subprocess.DEVNULL, stderr=subprocess.DEVNULL)
passed = set()
for tc in ET.parse(xml).getroot().iter("testcase"):
    if not any(ch.tag in ("failure", "error", "skipped") for ch in tc):
        passed.add(f"{tc.get('classname')}::{tc.get('name')}")
os.unlink(xml)
missing = sorted(want - passed)
print(f"{len(want & passed)}/{len(want)} baseline tests pass in {repo}")
for m in missing[:40]:
    print("  NOT PASSING:", m)
sys.exit(1 if missing else 0)
