#!/usr/bin/env python3
"""tools/try_seed.py <seed-name> <Cxx> [...]: run checks (quick tier unless TIER is set) against a scratch
copy of /repo with seeded/<seed-name>/patch.diff applied (selected through VERIF_REPO; /repo itself is
never touched).  Prints one line per check; exit status = number of checks that did not report a
violation.  Evidence files are saved and restored around the run."""
import json, os, shutil, subprocess, sys, tempfile

def main():
    name = sys.argv[1]
    patch = f"/verif/seeded/{name}/patch.diff"
    tmp = tempfile.mkdtemp(prefix="seedrun.", dir="/tmp")
    try:
        subprocess.run(["rsync", "-a", "--exclude", ".git", "/repo/", tmp + "/"], check=True)
        r = subprocess.run(["patch", "-p1", "-s", "-d", tmp, "-i", patch], stdout=subprocess.PIPE, stderr=subprocess.STDOUT)
        if r.returncode != 0:
            print("patch failed:", r.stdout.decode()[-300:])
            return 99
        missed = 0
        for c in sys.argv[2:]:
            ev = f"/verif/evidence/{c}.json"
            saved = open(ev).read() if os.path.exists(ev) else None
            env = dict(os.environ, VERIF_REPO=tmp)
            r = subprocess.run(["/venv/bin/python", "run.py", c, "--tier", os.environ.get("TIER", "quick")],
                               cwd="/verif", env=env, stdout=subprocess.PIPE, stderr=subprocess.STDOUT)
            out = r.stdout.decode()
            mechs = [l for l in out.splitlines() if "mechanism=" in l]
            first = (mechs[0] if mechs else "")[:260]
            total = next((l.split("violations=")[1].split()[0] for l in out.splitlines() if "violations=" in l), "?")
            print(f"{name} {c} rc={r.returncode} mechanisms={len(mechs)} violations={total} {first}")
            if os.environ.get("ALL"):
                for l in mechs[1:]:
                    print("     " + l.strip()[:200])
            if r.returncode != 1:
                missed += 1
                print("   last line:", out.strip().splitlines()[-1][:300] if out.strip() else "")
            if saved is not None:
                open(ev, "w").write(saved)
            elif os.path.exists(ev):
                os.unlink(ev)
        return missed
    finally:
        shutil.rmtree(tmp, ignore_errors=True)

sys.exit(main())
