"""Hierarchical design IR on top of the statement IR (vf/stmt.py).

A design = a flat module spec + a *scattering* of its top-level statements over a module tree (so
that signals are driven in one module and read in ancestors, descendants and siblings) + *split
signals* whose disjoint bit ranges are driven from different modules and domains.

  {"spec": <stmt spec>, "tree": [parent of module k, ...]  (module 0 = top, tree[0] = -1),
   "anon": [bool ...], "place": [module of top-level statement j ...],
   "splits": [{"w": w, "init": v, "parts": [[lo, hi, dom, expr, module], ...]}]}

Outputs observed: every comb / sync / ongoing leaf of the spec, then the split signals.
"""
from . import expr as X
from . import stmt as S
from . import target as T
from .common import norm, mask


def driven_leaves(st, acc=None):
    """Env indices of signals assigned anywhere inside statement st."""
    acc = set() if acc is None else acc
    op = st[0]
    if op == "assign":
        def walk(t):
            if t[0] == "sig":
                acc.add(t[1])
            elif t[0] in ("cat", "array"):
                for p in t[1]:
                    walk(p)
            else:
                walk(t[1])
        walk(st[2])
    elif op == "if":
        for cond, body in st[1]:
            for s in body:
                driven_leaves(s, acc)
        for s in st[2] or []:
            driven_leaves(s, acc)
    elif op in ("switch", "fsm"):
        for _, body in st[2]:
            for s in body:
                driven_leaves(s, acc)
    return acc


def groups_of(spec):
    """Union-find over top-level statements that drive a common signal (they must share a module)."""
    n = len(spec.stmts)
    parent = list(range(n))

    def find(a):
        while parent[a] != a:
            parent[a] = parent[parent[a]]
            a = parent[a]
        return a
    owner = {}
    for j, st in enumerate(spec.stmts):
        for leaf in driven_leaves(st):
            if leaf in owner:
                parent[find(j)] = find(owner[leaf])
            else:
                owner[leaf] = j
    return [find(j) for j in range(n)]


def scatter(spec, rng, nmod=None, nsplit=None):
    """Random scattering + split signals for a spec -> design dict."""
    nmod = rng.randrange(1, 6) if nmod is None else nmod
    tree = [-1] + [rng.randrange(0, k) for k in range(1, nmod)]
    anon = [False] + [rng.random() < 0.25 for _ in range(1, nmod)]
    g = groups_of(spec)
    gm = {}
    place = []
    for j in range(len(spec.stmts)):
        if g[j] not in gm:
            gm[g[j]] = rng.randrange(nmod)
        place.append(gm[g[j]])
    splits = []
    # readable by split parts: inputs and sync registers only (no comb ordering issues)
    readable = list(range(spec.ni)) + list(spec.sync_range())
    nsplit = rng.choice([0, 0, 1, 2]) if nsplit is None else nsplit
    for _ in range(nsplit if readable else 0):
        w = rng.randrange(2, 9)
        cuts = sorted(rng.sample(range(1, w), min(w - 1, rng.randrange(1, 3))))
        bounds = [0] + cuts + [w]
        parts = []
        for lo, hi in zip(bounds, bounds[1:]):
            if rng.random() < 0.15:
                continue      # leave some bits undriven (they stay at their initial value)
            dom = rng.choice(["comb", "sync", "sync"])
            a = ["sig", rng.choice(readable)]
            e = rng.choice([a, ["inv", a], ["add", a, ["const", rng.randrange(1, 4)]],
                            ["xor", a, ["sig", rng.choice(readable)]]])
            parts.append([lo, hi, dom, e, rng.randrange(nmod)])
        if parts:
            splits.append({"w": w, "init": rng.getrandbits(w), "parts": parts, "signed": rng.random() < 0.4})
    mem = None
    if spec.ni and rng.random() < 0.3:
        pick = lambda: rng.randrange(spec.ni)
        mem = {"mod": rng.randrange(nmod), "w": 4, "depth": rng.choice([2, 3, 4]), "wa": pick(), "wd": pick(), "we": pick(),
               "ra": pick(), "transparent": rng.random() < 0.5, "init": [rng.getrandbits(4) for _ in range(4)],
               "sibling": rng.choice([0, 0, 1, 2]), "gran": rng.choice([None, None, 1, 2])}
    return {"spec": spec.d, "tree": tree, "anon": anon, "place": place, "splits": splits, "mem": mem}


class BuiltDesign:
    pass


def build(design):
    """-> BuiltDesign: .top (Module), .inputs [Signal], .cd, .outs [(name, Signal, env index or ('split', k))]"""
    from amaranth.hdl import Module, Signal, Shape, ClockDomain
    spec = S.Spec(design["spec"])
    nmod = len(design["tree"])
    mods = [Module() for _ in range(nmod)]
    for k in range(1, nmod):
        p = mods[design["tree"][k]]
        if design["anon"][k]:
            p.submodules += mods[k]
        else:
            setattr(p.submodules, f"m{k}", mods[k])
    cd = S.make_sync_domain(design["spec"].get("negedge", False))
    mods[0].domains.sync = cd
    b0 = S.build_module(S.Spec(dict(design["spec"], stmts=[])), m=mods[0], domain_obj=cd)
    builts = []
    for k in range(nmod):
        bk = S.Built()
        bk.m = mods[k]
        bk.cd = cd
        bk.sigs = b0.sigs             # shared
        bk.fsm_objs = b0.fsm_objs
        bk.extra = None
        builts.append(bk)
    for j, st in enumerate(spec.stmts):
        S._build_stmts(spec, builts[design["place"][j]], [st])
    d = BuiltDesign()
    d.spec = spec
    d.top = mods[0]
    d.cd = cd
    d.idle, d.act = b0.idle, b0.act
    d.sigs = b0.sigs
    d.inputs = b0.sigs[:spec.ni]
    d.outs = []
    for i in range(spec.ni, len(spec.env)):
        v = b0.sigs[i]
        if v is None:
            continue
        w, s = spec.env[i]
        o = Signal(Shape(w, s), name=f"out{i}")
        mods[0].d.comb += o.eq(v)
        d.outs.append((f"out{i}", o, i))
    d.split_sigs = []
    for k, sp in enumerate(design["splits"]):
        sgn = bool(sp.get("signed"))
        sig = Signal(Shape(sp["w"], sgn), name=f"split{k}", init=norm(sp["init"], sp["w"], sgn))
        d.split_sigs.append(sig)
        for lo, hi, dom, e, mod in sp["parts"]:
            mods[mod].d[dom] += sig[lo:hi].eq(X.build(e, b0.sigs))
        o = Signal(sp["w"], name=f"outsplit{k}")
        mods[0].d.comb += o.eq(sig)
        d.outs.append((f"outsplit{k}", o, ("split", k)))
    me = design.get("mem")
    d.mem = None
    if me:
        from amaranth.lib.memory import Memory
        if me.get("sibling"):
            # another memory with its own write ports, elaborated in the same module before this one
            aux = Memory(shape=2, depth=2, init=[1, 2])
            mods[me["mod"]].submodules.aux = aux
            for k in range(me["sibling"]):
                awp = aux.write_port()
                mods[me["mod"]].d.comb += [awp.addr.eq(b0.sigs[me["wa"]][:1]), awp.data.eq(b0.sigs[me["wd"]][:2] + k), awp.en.eq(b0.sigs[me["we"]][:1])]
        mem = Memory(shape=me["w"], depth=me["depth"], init=me["init"][:me["depth"]])
        mods[me["mod"]].submodules.mem = mem
        wp = mem.write_port(granularity=me.get("gran"))       # (enable lanes: one enable bit per `gran` data bits)
        rc = mem.read_port(domain="comb")
        mm = mods[me["mod"]]
        ins = b0.sigs
        mm.d.comb += [wp.addr.eq(ins[me["wa"]]), wp.data.eq(ins[me["wd"]]), wp.en.eq(ins[me["we"]]), rc.addr.eq(ins[me["ra"]])]
        pl = [("outmemc", rc)]
        if me.get("sync_read", True):
            rs = mem.read_port(domain="sync", transparent_for=[wp] if me["transparent"] else [])
            mm.d.comb += [rs.addr.eq(ins[me["ra"]]), rs.en.eq(1)]
            pl.append(("outmems", rs))
        for nm, port in pl:
            o = Signal(me["w"], name=nm)
            mods[0].d.comb += o.eq(port.data)
            d.outs.append((nm, o, ("mem", nm)))
        d.mem = mem
    return d


class Ref:
    """Reference state: stmtref for the flat spec + the split-signal model."""

    def __init__(self, design):
        self.design = design
        self.spec = S.Spec(design["spec"])
        self.base = S.RefState(self.spec)
        self.split = [sp["init"] & mask(sp["w"]) for sp in design["splits"]]
        self._comb_splits()
        me = design.get("mem")
        self.rows = list(me["init"][:me["depth"]]) if me else None
        self.rdata = 0

    def _eval(self, e, vals):
        return X.ref_eval(e, self.spec.env, vals)

    def _comb_splits(self):
        for k, sp in enumerate(self.design["splits"]):
            for lo, hi, dom, e, mod in sp["parts"]:
                if dom == "comb":
                    m = mask(hi - lo) << lo
                    self.split[k] = (self.split[k] & ~m) | ((self._eval(e, self.base.vals) << lo) & m)

    def set_inputs(self, ivals):
        self.base.set_inputs(ivals)
        self._comb_splits()

    def _mem_in(self, key, w):
        return self.base.vals[self.design["mem"][key]] & mask(w)

    def clock_edge(self, rst=0):
        pre = list(self.base.vals)
        me = self.design.get("mem")
        if me:
            aw = max(me["depth"] - 1, 0).bit_length()
            wa, ra = pre[me["wa"]] & mask(aw), pre[me["ra"]] & mask(aw)
            gran = me.get("gran") or me["w"]
            lanes = me["w"] // gran
            wd, we = pre[me["wd"]] & mask(me["w"]), pre[me["we"]] & mask(lanes)
            bitmask = 0                # data bits whose lane is enabled
            for ln in range(lanes):
                if (we >> ln) & 1:
                    bitmask |= mask(gran) << (ln * gran)
            if ra < me["depth"]:
                self.rdata = self.rows[ra]
                if me["transparent"] and wa == ra:
                    self.rdata = (self.rdata & ~bitmask) | (wd & bitmask)
            else:
                self.rdata = None          # unspecified
            if wa < me["depth"]:
                self.rows[wa] = (self.rows[wa] & ~bitmask) | (wd & bitmask)
        self.base.clock_edge(rst)
        for k, sp in enumerate(self.design["splits"]):
            for lo, hi, dom, e, mod in sp["parts"]:
                if dom == "sync":
                    m = mask(hi - lo) << lo
                    v = sp["init"] if rst else (self._eval(e, pre) << lo)
                    self.split[k] = (self.split[k] & ~m) | (v & m)
        self._comb_splits()

    def value(self, key):
        """-> int, or None where the documented behaviour is unspecified"""
        if isinstance(key, tuple):
            if key[0] == "mem":
                me = self.design["mem"]
                if key[1] == "outmems":
                    return self.rdata
                aw = max(me["depth"] - 1, 0).bit_length()
                ra = self.base.vals[me["ra"]] & mask(aw)
                return self.rows[ra] if ra < me["depth"] else None
            return self.split[key[1]]
        return self.base.vals[key]
