"""Assignable-target IR (shared by C02 and C05): resolver reference + builder + generator.

Target nodes:
  ["sig", i]                      state signal i (shape from env)
  ["slice", t, a, b]              t[a:b] (0 <= a <= b <= width, already normalised)
  ["cat", [t...]]
  ["part", t, off, w, stride, via]  t.bit_select/word_select(off, w); off is an expression IR over
                                  the *same* env (["const", n] for constant offsets);
                                  via in {"bit", "word"}
  ["array", [t...], idx]          Array([...])[idx]; idx expression IR (unsigned, always in range)
  ["as_signed", t] / ["as_unsigned", t]
resolve(): the documented semantics: list (one entry per target bit, LSB first) of (sig, bit) or
None for bits that fall outside (silently dropped).
"""
from . import expr as X
from .common import unify


def t_shape(t, env):
    op = t[0]
    if op == "sig":
        return tuple(env[t[1]])
    if op == "slice":
        return (t[3] - t[2], False)
    if op == "cat":
        return (sum(t_shape(p, env)[0] for p in t[1]), False)
    if op == "part":
        return (t[3], False)
    if op == "array":
        iw = X.ref_shape(t[2], env)[0]
        shapes = [t_shape(e, env) for e in t[1]]    # (validates unreachable elements too)
        return unify(shapes[:1 << iw])
    if op == "as_signed":
        w = t_shape(t[1], env)[0]
        if w == 0:
            raise X.IllFormed("as_signed of zero width")
        return (w, True)
    if op == "as_unsigned":
        return (t_shape(t[1], env)[0], False)
    raise X.IllFormed(op)


def resolve(t, env, vals):
    op = t[0]
    if op == "sig":
        return [(t[1], b) for b in range(env[t[1]][0])]
    if op == "slice":
        return resolve(t[1], env, vals)[t[2]:t[3]]
    if op == "cat":
        r = []
        for p in t[1]:
            r.extend(resolve(p, env, vals))
        return r
    if op == "part":
        inner = resolve(t[1], env, vals)
        off = X.ref_eval(t[2], env, vals) * t[4]
        return [inner[off + k] if off + k < len(inner) else None for k in range(t[3])]
    if op == "array":
        i = X.ref_eval(t[2], env, vals)
        inner = resolve(t[1][i], env, vals)
        w = t_shape(t, env)[0]
        return [inner[k] if k < len(inner) else None for k in range(w)]
    if op in ("as_signed", "as_unsigned"):
        return resolve(t[1], env, vals)
    raise X.IllFormed(op)


def apply_write(t, env, vals, v):
    """State after writing integer v (any size/sign) to target t in state vals."""
    bits = resolve(t, env, vals)
    new = [x & ((1 << w) - 1) for x, (w, s) in zip(vals, env)]
    for k, dst in enumerate(bits):
        if dst is None:
            continue
        i, b = dst
        new[i] = (new[i] & ~(1 << b)) | (((v >> k) & 1) << b)
    from .common import norm
    return [norm(x, w, s) for x, (w, s) in zip(new, env)]


def build(t, sigs):
    from amaranth.hdl import Cat, Array, Value
    op = t[0]
    if op == "sig":
        return sigs[t[1]]
    if op == "slice":
        return build(t[1], sigs)[t[2]:t[3]]
    if op == "cat":
        return Cat(*[build(p, sigs) for p in t[1]])
    if op == "part":
        base = build(t[1], sigs)
        off = X.build(t[2], sigs) if t[2][0] != "const" else t[2][1]
        if t[5] == "bit":
            return base.bit_select(off, t[3])
        return base.word_select(off, t[3])
    if op == "array":
        return Value.cast(Array([build(e, sigs) for e in t[1]])[X.build(t[2], sigs)])
    if op == "as_signed":
        return build(t[1], sigs).as_signed()
    if op == "as_unsigned":
        return build(t[1], sigs).as_unsigned()
    raise X.IllFormed(op)


def depth(t):
    op = t[0]
    if op == "sig":
        return 0
    if op in ("slice", "part", "as_signed", "as_unsigned"):
        return 1 + depth(t[1])
    if op in ("cat", "array"):
        return 1 + max([depth(p) for p in t[1]] or [0])
    return 0


def forms(t, acc=None):
    if acc is None:
        acc = []
    op = t[0]
    if op == "part":
        acc.append(("part-const" if t[2][0] == "const" else "part-dyn") + ":" + t[5])
    elif op != "sig":
        acc.append(op)
    if op in ("slice", "part", "as_signed", "as_unsigned"):
        forms(t[1], acc)
    elif op in ("cat", "array"):
        for p in t[1]:
            forms(p, acc)
    return acc


def fingerprint(t, env):
    op = t[0]
    if op == "sig":
        return ["sig", list(env[t[1]])]
    if op == "slice":
        return ["slice", fingerprint(t[1], env), t[2], t[3]]
    if op == "cat":
        return ["cat", [fingerprint(p, env) for p in t[1]]]
    if op == "part":
        return ["part", fingerprint(t[1], env), X.fingerprint(t[2], env), t[3], t[4]]
    if op == "array":
        return ["array", [fingerprint(p, env) for p in t[1]], X.fingerprint(t[2], env)]
    return [op, fingerprint(t[1], env)]


def gen_offset(rng, env, max_w, allowed=None):
    """Unsigned offset/index expression over env; small. allowed: leaf indices that may be read."""
    cands = [i for i, (w, s) in enumerate(env) if not s and 0 <= w <= max_w
             and (allowed is None or i in allowed)]
    k = rng.random()
    if cands and k < 0.6:
        return ["sig", rng.choice(cands)]
    if k < 0.8:
        return ["const", rng.choice([0, 1, 2, 3, 4, 5, 7])]
    if cands:
        i = rng.choice(cands)
        return rng.choice([["slice", ["sig", i], 0, max(env[i][0] - 1, 0), None],
                           ["as_unsigned", ["inv", ["sig", i]]]])
    return ["const", rng.choice([0, 1, 2])]


def gen_target(rng, env, d, targets=None, offsets=None):
    """Random assignable target of nesting depth <= d over the signals listed in `targets`;
    offsets/indices read only the leaves listed in `offsets` (default: any)."""
    if targets is None:
        targets = list(range(len(env)))
    for _ in range(40):
        try:
            t = _gen(rng, env, d, targets, offsets)
            t_shape(t, env)
            return t
        except X.IllFormed:
            continue
    return ["sig", rng.choice(targets)]


def _gen(rng, env, d, targets, offsets=None):
    if d <= 0 or rng.random() < 0.15:
        return ["sig", rng.choice(targets)]
    k = rng.random()
    G = lambda: _gen(rng, env, d - 1, targets, offsets)
    if k < 0.25:
        t = G()
        w = t_shape(t, env)[0]
        a = rng.randrange(0, w + 1)
        b = rng.randrange(a, w + 1)
        return ["slice", t, a, b]
    if k < 0.40:
        return ["cat", [G() for _ in range(rng.choice([0, 1, 2, 2, 3]))]]
    if k < 0.70:
        t = G()
        w = t_shape(t, env)[0]
        via = rng.choice(["bit", "word"])
        pw = rng.choice([0, 1, 1, 2, 3, w, w + 1]) if via == "bit" else rng.choice([1, 1, 2, 3, max(w, 1)])
        off = gen_offset(rng, env, 3, offsets)
        return ["part", t, off, pw, 1 if via == "bit" else pw, via]
    if k < 0.85:
        idx = gen_offset(rng, env, 2, offsets)
        if idx[0] == "const":
            idx = ["const", rng.choice([0, 1])]
        iw, isg = X.ref_shape(idx, env)
        if isg or iw > 2:
            raise X.IllFormed("idx")
        n = (1 << iw) + rng.choice([0, 0, 1])
        return ["array", [G() for _ in range(n)], idx]
    t = G()
    return [rng.choice(["as_signed", "as_unsigned"]), t]
