"""Runtime-monitoring framework for the amaranth property set C01..C20 (see /verif/DESIGN.md)."""
