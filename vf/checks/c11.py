"""C11 Memories behave as arrays of rows under any port configuration."""
import itertools

from .. import instrument
from ..common import derive_rng, fp, exc_origin, mask, norm, fits
from ..rtlil import parse as P, eval as E

PROPERTY = "C11"
LEVEL = "exploration"
RULE = ("random memory configurations: row shape unsigned/signed/ArrayLayout/StructLayout (width <= 8), "
        "depth in {0,1,2,3,4,5,8}, 0-3 read ports (comb/sync) and 0-3 write ports over 1-2 domains "
        "(pos/neg edge), any transparency subset of same-domain write ports, any granularity dividing "
        "the width / element count, random initial rows; stimulus of 60-200 steps: change port "
        "address/data/enable inputs | pulse a set of clocks (coincident edges included) | write or "
        "read a row directly from the testbench | pulse a domain reset. After every step every read "
        "data signal and every row is compared three ways: Amaranth simulator vs memref (array-of-rows "
        "model with poison for the documented unspecified cases) vs the independent evaluation of the "
        "emitted RTLIL. enumerate: width 4, depth 2, one write port x one sync read port: every "
        "(granularity, transparency) x all 2-edge sequences of (addr, data, en) letters. "
        "distinct/non-trivial = distinct configurations with >= 1 write and >= 1 read port.")
ASSUMPTIONS = ["memref poisons (never compares): reads at address >= depth, bits written at the same instant by two ports with different data, sync reads of a row written at the same instant from another domain",
               "RTLIL side compared only where the evaluator's value is defined (read data before the first enabled edge is undefined there)",
               "port inputs and clocks never change in the same step"]
REQUIRED_MONITORS = ["slot_commit", "mem_commit"]
MIN_NONTRIVIAL = {"quick": 200, "thorough": 2000}
NSHARDS = 16


# ---- configuration IR ---------------------------------------------------------------------------
def gen_config(rng):
    k = rng.random()
    if k < 0.5:
        shape = ["u", rng.choice([1, 2, 3, 4, 6, 8])]
    elif k < 0.65:
        shape = ["s", rng.choice([1, 2, 4, 5])]
    elif k < 0.85:
        shape = ["array", rng.choice([1, 2, 3]), rng.choice([1, 2, 3, 4])]
    elif k < 0.93:
        shape = ["struct", [[f"f{j}", rng.choice([1, 2, 3]), rng.random() < 0.3] for j in range(rng.randrange(1, 4))]]
    else:
        # a data.Struct class with field defaults: rows that are not initialised hold the defaults
        fl = []
        for j in range(rng.randrange(1, 4)):
            fw, fs = rng.choice([1, 2, 3]), rng.random() < 0.4
            dv = rng.randrange(-(1 << (fw - 1)), 1 << (fw - 1)) if fs else rng.randrange(0, 1 << fw)
            fl.append([f"f{j}", fw, fs, dv])
        shape = ["sclass", fl]
    depth = rng.choice([0, 1, 2, 2, 3, 4, 5, 8])
    w = width_of(shape)
    doms = {"d0": rng.choice(["pos", "pos", "neg"])}
    if rng.random() < 0.4:
        doms["d1"] = rng.choice(["pos", "neg"])
    dn = list(doms)
    wports = []
    for _ in range(rng.choice([0, 1, 1, 2, 3])):
        gran = None
        if shape[0] == "u" and rng.random() < 0.6:
            gran = rng.choice([g for g in range(1, w + 1) if w % g == 0])
        elif shape[0] == "array" and rng.random() < 0.6:
            gran = rng.choice([g for g in range(1, shape[2] + 1) if shape[2] % g == 0])
        wports.append({"domain": rng.choice(dn), "gran": gran})
    rports = []
    for _ in range(rng.choice([0, 1, 1, 2, 3])):
        d = rng.choice(["comb"] + dn + dn)
        tf = []
        if d != "comb":
            same = [i for i, p in enumerate(wports) if p["domain"] == d]
            tf = [i for i in same if rng.random() < 0.5]
        rports.append({"domain": d, "transparent_for": tf})
    init = [rng.getrandbits(w) if w else 0 for _ in range(depth)]
    if rng.random() < 0.3:
        init = init[:rng.randrange(0, depth + 1)]
    cfg = {"shape": shape, "depth": depth, "init": init, "domains": doms, "wports": wports, "rports": rports,
           "resets": rng.random() < 0.3,
           "init_via": rng.choice(["constructor", "constructor", "slice", "strided-slices", "rows", "setter"])}
    if rng.random() < 0.35:
        # another memory with write ports of its own elaborated in the same module *before* this one (port
        # numbering of one memory must not leak into the other's transparency masks)
        cfg["sibling_write_ports"] = rng.choice([1, 2, 3])
    if len(dn) == 2 and rng.random() < 0.4:
        # the memory sits under a DomainRenamer that exchanges the two domains: its ports are declared in the
        # opposite domain (one simultaneous substitution; the order of the map entries must not matter)
        cfg["renamed"] = [["d0", "d1"], ["d1", "d0"]] if rng.random() < 0.5 else [["d1", "d0"], ["d0", "d1"]]
    return cfg


def width_of(shape):
    if shape[0] in ("u", "s"):
        return shape[1]
    if shape[0] == "array":
        return shape[1] * shape[2]
    return sum(f[1] for f in shape[1])


def default_row(shape):
    """Bits of a row that the user did not initialise."""
    if shape[0] != "sclass":
        return 0
    v = pos = 0
    for n, w, s, dv in shape[1]:
        v |= (dv & mask(w)) << pos
        pos += w
    return v


_sclass = {}


def real_shape(shape):
    from amaranth.hdl import unsigned, signed
    from amaranth.lib import data
    if shape[0] == "u":
        return unsigned(shape[1])
    if shape[0] == "s":
        return signed(shape[1])
    if shape[0] == "array":
        return data.ArrayLayout(unsigned(shape[1]), shape[2])
    if shape[0] == "sclass":
        key = repr(shape[1])
        if key not in _sclass:
            ns = {"__annotations__": {n: (signed(w) if s else unsigned(w)) for n, w, s, dv in shape[1]}}
            for n, w, s, dv in shape[1]:
                ns[n] = dv
            _sclass[key] = type(f"Row{len(_sclass)}", (data.Struct,), ns)
        return _sclass[key]
    return data.StructLayout({n: (signed(w) if s else unsigned(w)) for n, w, s in shape[1]})


def real_init(shape, bits):
    """Initial row value as the user would write it."""
    if shape[0] == "u":
        return bits
    if shape[0] == "s":
        return norm(bits, shape[1], True)
    if shape[0] == "array":
        return [(bits >> (i * shape[1])) & mask(shape[1]) for i in range(shape[2])]
    out = {}
    pos = 0
    for f in shape[1]:
        n, w, s = f[0], f[1], f[2]
        out[n] = norm((bits >> pos) & mask(w), w, s)
        pos += w
    return out


def granule_masks(cfg, wp):
    """Bit masks of the enable bits of a write port."""
    w = width_of(cfg["shape"])
    g = wp["gran"]
    if g is None:
        return [mask(w)]
    if cfg["shape"][0] == "array":
        gb = g * cfg["shape"][1]
    else:
        gb = g
    if gb == 0 or w == 0:
        return []
    return [mask(gb) << (k * gb) for k in range(w // gb)]


class Built:
    pass


def build(cfg):
    from amaranth.hdl import Module, ClockDomain, Value
    from amaranth.lib.memory import Memory
    b = Built()
    m = Module()
    b.cds = {}
    for name, edge in cfg["domains"].items():
        cd = ClockDomain(name, clk_edge=edge)
        setattr(m.domains, name, cd)
        b.cds[name] = cd
    shape = real_shape(cfg["shape"])
    rows = [real_init(cfg["shape"], v) for v in cfg["init"]]
    via = cfg.get("init_via", "constructor")
    if via == "constructor":
        mem = Memory(shape=shape, depth=cfg["depth"], init=rows)
    else:
        # the same declared contents stored another way: slice assignment, per-row assignment, or the init setter
        mem = Memory(shape=shape, depth=cfg["depth"], init=[])
        if via == "slice":
            mem.init[0:len(rows)] = rows
        elif via == "strided-slices":
            mem.init[0:len(rows):2] = rows[0::2]
            mem.init[1:len(rows):2] = rows[1::2]
        elif via == "rows":
            for i, r_ in enumerate(rows):
                mem.init[i] = r_
        else:
            mem.init = rows
    if cfg.get("sibling_write_ports"):
        from amaranth.hdl import Signal
        aux = Memory(shape=4, depth=2, init=[5, 9])
        m.submodules.aux = aux
        b.aux_q = Signal(4, name="aux_q")
        ctr = Signal(4, name="aux_ctr")
        m.d.d0 += ctr.eq(ctr + 3)
        for k in range(cfg["sibling_write_ports"]):
            awp = aux.write_port(domain="d0")
            m.d.comb += [awp.addr.eq(ctr[k % 4]), awp.data.eq(ctr + k), awp.en.eq(ctr[(k + 1) % 4])]
        arp = aux.read_port(domain="comb")
        m.d.comb += [arp.addr.eq(ctr[3]), b.aux_q.eq(arp.data)]
    ren = cfg.get("renamed")
    declared = (lambda d: d)
    if ren:
        from amaranth.hdl import DomainRenamer
        inverse = {dst: src for src, dst in ren}
        declared = (lambda d: inverse.get(d, d))
        m.submodules.mem = DomainRenamer({src: dst for src, dst in ren})(mem)
    else:
        m.submodules.mem = mem
    b.wps = [mem.write_port(domain=declared(p["domain"]), granularity=p["gran"]) for p in cfg["wports"]]
    b.rps = [mem.read_port(domain=declared(p["domain"]), transparent_for=[b.wps[i] for i in p["transparent_for"]]) for p in cfg["rports"]]
    b.m, b.mem = m, mem
    return b


def port_map(b, cfg):
    """name -> (Value, dir)"""
    from amaranth.hdl import Value
    from amaranth.hdl._ir import PortDirection as PD
    ports = {}
    for name, cd in b.cds.items():
        ports[f"{name}_clk"] = (cd.clk, PD.Input)
        ports[f"{name}_rst"] = (cd.rst, PD.Input)
    for i, wp in enumerate(b.wps):
        ports[f"w{i}_addr"] = (wp.addr, PD.Input)
        ports[f"w{i}_data"] = (Value.cast(wp.data), PD.Input)
        ports[f"w{i}_en"] = (wp.en, PD.Input)
    for i, rp in enumerate(b.rps):
        ports[f"r{i}_addr"] = (rp.addr, PD.Input)
        if cfg["rports"][i]["domain"] != "comb":
            ports[f"r{i}_en"] = (rp.en, PD.Input)
        ports[f"r{i}_data"] = (Value.cast(rp.data), PD.Output)
    return ports


# ---- memref ---------------------------------------------------------------------------------------
class MemRef:
    def __init__(self, cfg):
        self.cfg = cfg
        self.w = width_of(cfg["shape"])
        full = mask(self.w)
        self.rows = [[(cfg["init"][i] if i < len(cfg["init"]) else default_row(cfg["shape"])) & full, 0] for i in range(cfg["depth"])]
        self.wp = [{"addr": 0, "data": 0, "en": 0} for _ in cfg["wports"]]
        self.rp = [{"addr": 0, "en": 1 if p["domain"] != "comb" else 1, "data": [0, 0]} for p in cfg["rports"]]
        # documented: read port data is initially zero?  Unspecified before the first read: poison
        for r, p in zip(self.rp, cfg["rports"]):
            if p["domain"] != "comb":
                # the data signal's own initial value: the shape's default (0 for plain shapes)
                r["data"] = [default_row(cfg["shape"]) & full, 0]
        self.clk = {d: 0 for d in cfg["domains"]}
        self.rst = {d: 0 for d in cfg["domains"]}

    def en_mask(self, i):
        gm = granule_masks(self.cfg, self.cfg["wports"][i])
        en = self.wp[i]["en"]
        m = 0
        for k, g in enumerate(gm):
            if (en >> k) & 1:
                m |= g
        return m

    def fire(self, doms):
        """Active edges of the given domains at one instant, from the current (pre-edge) inputs."""
        cfg = self.cfg
        depth = cfg["depth"]
        firing_w = [i for i, p in enumerate(cfg["wports"]) if p["domain"] in doms]
        writes = []       # (port, row, mask, data)
        for i in firing_w:
            a = self.wp[i]["addr"]
            em = self.en_mask(i)
            if a < depth and em:
                writes.append((i, a, em, self.wp[i]["data"] & mask(self.w)))
        for j, p in enumerate(cfg["rports"]):
            if p["domain"] == "comb" or p["domain"] not in doms:
                continue
            r = self.rp[j]
            if not r["en"]:
                continue
            a = r["addr"]
            if a >= depth:
                r["data"] = [0, mask(self.w)]
                continue
            v, x = self.rows[a]
            for (i, row, em, dv) in writes:
                if row != a:
                    continue
                if cfg["wports"][i]["domain"] != p["domain"]:
                    x |= em                       # written from another domain at this instant: unspecified
                elif i in p["transparent_for"]:
                    v = (v & ~em) | (dv & em)
                    x &= ~em
            r["data"] = [v & ~x, x]
        # commit writes; same-instant conflicting bits are unspecified
        per_row = {}
        for (i, row, em, dv) in writes:
            per_row.setdefault(row, []).append((em, dv))
        for row, lst in per_row.items():
            v, x = self.rows[row]
            written = wv = wx = 0
            for em, dv in lst:
                both = written & em
                wx |= both & (wv ^ dv)
                wv = (wv & ~em) | (dv & em)
                written |= em
            v = (v & ~written) | (wv & written)
            x = (x & ~written) | (wx & written)
            self.rows[row] = [v & ~x, x]

    def reset_edge(self, doms):
        """Domain reset asserted at an active edge: memory rows and (per the property) read data hold."""
        pass

    def comb_data(self, j):
        a = self.rp[j]["addr"]
        if a >= self.cfg["depth"]:
            return (0, mask(self.w))
        return tuple(self.rows[a])

    def data(self, j):
        if self.cfg["rports"][j]["domain"] == "comb":
            return self.comb_data(j)
        return tuple(self.rp[j]["data"])


# ---- co-simulation -----------------------------------------------------------------------------------
def gen_steps(cfg, rng, n):
    steps = []
    depth = cfg["depth"]
    aw = max(depth - 1, 0).bit_length() if depth else 0
    w = width_of(cfg["shape"])
    doms = list(cfg["domains"])
    hot = rng.randrange(max(depth, 1))
    for _ in range(n):
        x = rng.random()
        if x < 0.45:
            ch = {}
            for i, p in enumerate(cfg["wports"]):
                if rng.random() < 0.7:
                    ng = len(granule_masks(cfg, p))
                    ch[f"w{i}"] = [hot if rng.random() < 0.5 else rng.getrandbits(aw), rng.getrandbits(w),
                                   rng.choice([0, mask(ng), rng.getrandbits(ng) if ng else 0, mask(ng)])]
            for j, p in enumerate(cfg["rports"]):
                if rng.random() < 0.7:
                    ch[f"r{j}"] = [hot if rng.random() < 0.5 else rng.getrandbits(aw), int(rng.random() < 0.75)]
            steps.append(["in", ch])
        elif x < 0.9:
            k = rng.random()
            if len(doms) > 1 and k < 0.3:
                steps.append(["pulse", list(doms)])
            else:
                steps.append(["pulse", [rng.choice(doms)]])
        elif x < 0.96 and depth:
            # (also values that do not fit the row: they are truncated like any assignment)
            steps.append(["poke", rng.randrange(depth), rng.choice([rng.getrandbits(w), rng.getrandbits(w), -1, rng.getrandbits(w + 3), -rng.getrandbits(w) - 1])])
        elif cfg["resets"]:
            steps.append(["rstpulse", rng.choice(doms)])
    return steps


def cosim(cfg, steps, out, use_rtlil=True):
    from amaranth.hdl import Cat, Value
    from amaranth.sim import Simulator
    from amaranth.back import rtlil
    viol = out["violations"]

    def V(mech, **kw):
        viol.append({"mechanism": mech, "detail": dict(config=cfg, **kw)})
    try:
        b = build(cfg)
        sim = Simulator(b.m)
        ev = None
        if use_rtlil:
            b2 = build(cfg)
            text = rtlil.convert(b2.m, ports=port_map(b2, cfg), emit_src=False)
            doc = P.parse(text)
            ev = E.Evaluator(doc)
    except P.ParseError as ex:
        V("rtlil-does-not-parse", error=str(ex)[:300])
        return
    except E.EvalError as ex:
        V("rtlil-evaluator-rejects-document", error=str(ex)[:300])
        return
    except Exception as ex:
        if exc_origin(ex) != "repo":
            raise
        V(f"build-or-convert-exception:{type(ex).__name__}", exception=repr(ex)[:300])
        return
    out["extra"]["configs"] += 1
    ref = MemRef(cfg)
    w = ref.w
    full = mask(w)
    doms = list(cfg["domains"])
    clkcat = Cat(*[b.cds[d].clk for d in doms])
    mem_scope = None
    if ev is not None:
        for path, sc in ev.scopes.items():
            if sc.mems:
                names = [nm for nm in sc.mems if "aux" not in nm]
                if names:
                    mem_scope = (path, names[0])
        for name in port_map(b, cfg):
            if not name.endswith("_data") or name.startswith("w"):
                try:
                    ev.set(name, 0)
                except E.EvalError:
                    pass
        ev.step()

    def ev_set(name, v):
        if ev is not None:
            try:
                ev.set(name, v)
            except E.EvalError:
                pass       # a zero-width or optimised-away port

    restarted = [False]

    async def tb(ctx):
        if restarted[0]:
            return          # (the restart checks below only read the rows)

        def compare(n, st):
            for j, rp in enumerate(b.rps):
                sv = ctx.get(Value.cast(rp.data)) & full
                mv, mx = ref.data(j)
                out["evaluations"] += 1
                if (sv & ~mx) != (mv & ~mx):
                    V("simulator-read-data-vs-model:" + cfg["rports"][j]["domain"].replace("d0", "sync").replace("d1", "sync"),
                      steps=steps[:n + 1], step=n, port=j, simulator=sv, model=mv, poison=mx)
                    return False
                out["extra"]["poisoned_bits_skipped"] += bin(mx).count("1")
                if ev is not None:
                    rv, rx = ev.get(f"r{j}_data")
                    skip = rx | mx
                    out["extra"]["rtlil_undef_bits_skipped"] += bin(rx).count("1")
                    if (rv & ~skip) != (sv & ~skip):
                        who = "rtlil" if (sv & ~skip) == (mv & ~skip) else "simulator"
                        V("simulator-vs-rtlil-read-data:" + who, steps=steps[:n + 1], step=n, port=j, simulator=sv,
                          rtlil=rv, rtlil_undef=rx, model=mv, poison=mx)
                        return False
            for i in range(cfg["depth"]):
                raw = ctx.get(Value.cast(b.mem.data[i]))
                rsh = Value.cast(b.mem.data[i]).shape()
                if not fits(raw, rsh.width, rsh.signed):
                    V("row-read-outside-the-row-shape", steps=steps[:n + 1], step=n, row=i, value=raw, shape=repr(rsh))
                    return False
                sv = raw & full
                mv, mx = ref.rows[i]
                if (sv & ~mx) != (mv & ~mx):
                    V("simulator-row-vs-model", steps=steps[:n + 1], step=n, row=i, simulator=sv, model=mv, poison=mx)
                    return False
                if ev is not None and mem_scope is not None:
                    rv, rx = ev.get_mem(*mem_scope)[i]
                    skip = rx | mx
                    if (rv & ~skip) != (sv & ~skip):
                        V("simulator-vs-rtlil-row", steps=steps[:n + 1], step=n, row=i, simulator=sv, rtlil=rv, rtlil_undef=rx, model=mv)
                        return False
            return True

        def half(level_mask):
            """Set all clocks to level_mask at once; fire the domains whose active edge this is."""
            firing = []
            for k, d in enumerate(doms):
                new = (level_mask >> k) & 1
                old = ref.clk[d]
                if new != old:
                    if (cfg["domains"][d] == "pos" and new == 1) or (cfg["domains"][d] == "neg" and new == 0):
                        firing.append(d)
                    ref.clk[d] = new
            ctx.set(clkcat, level_mask)
            for k, d in enumerate(doms):
                ev_set(f"{d}_clk", (level_mask >> k) & 1)
            if ev is not None:
                ev.step()
            if firing:
                ref.fire(set(firing))
                if len(firing) > 1:
                    out["extra"]["coincident_edge_events"] += 1
        if not compare(-1, None):
            return
        for n, st in enumerate(steps):
            if st[0] == "in":
                for key, val in st[1].items():
                    k = int(key[1:])
                    if key[0] == "w":
                        a, d, e = val
                        wp = b.wps[k]
                        a &= mask(len(wp.addr))
                        e &= mask(len(wp.en))
                        ctx.set(wp.addr, a)
                        ctx.set(Value.cast(wp.data), d)
                        ctx.set(wp.en, e)
                        ref.wp[k].update(addr=a, data=d, en=e)
                        ev_set(f"w{k}_addr", a)
                        ev_set(f"w{k}_data", d)
                        ev_set(f"w{k}_en", e)
                    else:
                        a, e = val
                        rp = b.rps[k]
                        a &= mask(len(rp.addr))
                        ctx.set(rp.addr, a)
                        ref.rp[k]["addr"] = a
                        ev_set(f"r{k}_addr", a)
                        if cfg["rports"][k]["domain"] != "comb":
                            ctx.set(rp.en, e)
                            ref.rp[k]["en"] = e
                            ev_set(f"r{k}_en", e)
                if ev is not None:
                    ev.step()
            elif st[0] == "pulse":
                cur = sum(ref.clk[d] << k for k, d in enumerate(doms))
                m1 = cur
                for d in st[1]:
                    m1 |= 1 << doms.index(d)
                half(m1)
                if not compare(n, st):
                    return
                half(cur)
            elif st[0] == "poke":
                _, row, v = st
                ctx.set(Value.cast(b.mem.data[row]), v)
                ref.rows[row] = [v & full, 0]
                if ev is not None and mem_scope is not None:
                    sc = ev.scopes[mem_scope[0]]
                    sc.mems[mem_scope[1]].rows[row] = (v & full, 0)
                    ev.step()
                out["extra"]["direct_row_writes"] += 1
            elif st[0] == "rstpulse":
                d = st[1]
                # reset asserted across one full clock pulse: rows are untouched, read data holds
                # (ports keep operating: a reset does not disable memory ports)
                ctx.set(b.cds[d].rst, 1)
                ev_set(f"{d}_rst", 1)
                if ev is not None:
                    ev.step()
                cur = sum(ref.clk[x] << k for k, x in enumerate(doms))
                half(cur | (1 << doms.index(d)))
                if not compare(n, st):
                    return
                half(cur)
                ctx.set(b.cds[d].rst, 0)
                ev_set(f"{d}_rst", 0)
                if ev is not None:
                    ev.step()
                out["extra"]["reset_pulses"] += 1
            if not compare(n, st):
                return
    sim.add_testbench(tb)
    try:
        sim.run()
    except E.EvalError as ex:
        V("rtlil-evaluation-error", error=str(ex)[:300])
        return
    except Exception as ex:
        if exc_origin(ex) != "repo":
            raise
        V(f"simulation-exception:{type(ex).__name__}", steps=steps, exception=repr(ex)[:300])
        return
    if viol and viol[-1]["detail"].get("config") is cfg:
        return
    # the declared initial contents are a property of the design, not of one run: after the simulation above
    # (which wrote rows through ports and directly) the same design still declares them, a simulator created on
    # it afresh and the first one after reset() both start from them, and it still converts to the same RTLIL
    declared = [(cfg["init"][i] if i < len(cfg["init"]) else default_row(cfg["shape"])) & full for i in range(cfg["depth"])]
    try:
        from amaranth.hdl import Const
        now = [Const.cast(Const(x, b.mem.shape) if not isinstance(x, int) else Const(x, w)).value & full for x in b.mem.init] if w else [0] * cfg["depth"]
        if now != declared:
            V("declared-init-changed-by-simulation", init_after=now, declared=declared)
            return
        for label in ("fresh-simulator-on-the-same-design", "same-simulator-after-reset"):
            seen = []

            async def tb2(ctx):
                for i in range(cfg["depth"]):
                    v = ctx.get(b.mem.data[i])
                    seen.append(Const.cast(Const(v, b.mem.shape)).value & full if not isinstance(v, int) else v & full)
            if label.startswith("fresh"):
                s2 = Simulator(b.m)
                s2.add_testbench(tb2)
            else:
                s2 = sim
                restarted[0] = True
                s2.reset()
                s2.add_testbench(tb2)
            s2.run()
            out["extra"]["restart_row_reads"] = out["extra"].get("restart_row_reads", 0) + len(seen)
            if seen != declared:
                V("memory-does-not-start-from-declared-init:" + label, rows=seen, declared=declared)
                return
        if use_rtlil:
            again = rtlil.convert(b.m, ports=port_map(b, cfg), emit_src=False)
            if again != text:
                V("rtlil-of-the-design-differs-after-simulating-it")
    except Exception as ex:
        if exc_origin(ex) != "repo":
            raise
        V(f"restart-exception:{type(ex).__name__}", exception=repr(ex)[:300])


def enum_configs():
    """width 4, depth 2, one write port (granularity 1,2,4,None) x one sync read port (transparent or not)."""
    for gran in (None, 1, 2, 4):
        for tf in ([], [0]):
            for edge in ("pos", "neg"):
                yield {"shape": ["u", 4], "depth": 2, "init": [5, 10], "domains": {"d0": edge},
                       "wports": [{"domain": "d0", "gran": gran}], "rports": [{"domain": "d0", "transparent_for": tf},
                                                                              {"domain": "comb", "transparent_for": []}],
                       "resets": False}


def enum_steps(cfg, rng):
    """All 2-edge sequences over a small letter set."""
    ng = len(granule_masks(cfg, cfg["wports"][0]))
    letters = []
    for wa in (0, 1):
        for en in sorted({0, mask(ng), 1 if ng > 1 else mask(ng)}):
            for ra in (0, 1):
                for ren in (0, 1):
                    letters.append((wa, en, ra, ren))
    seqs = []
    for l1, l2 in itertools.product(letters, repeat=2):
        seq = []
        for (wa, en, ra, ren) in (l1, l2):
            seq.append(["in", {"w0": [wa, rng.getrandbits(4), en], "r0": [ra, ren], "r1": [ra, 1]}])
            seq.append(["pulse", ["d0"]])
        seqs.append(seq)
    return seqs


def shards(tier, seed):
    n = 1600 if tier == "quick" else 32000
    specs = [{"kind": "sample", "seed": seed, "shard": i, "configs": n // NSHARDS, "steps": 60 if tier == "quick" else 200}
             for i in range(NSHARDS)]
    specs.append({"kind": "enum", "seed": seed, "stride": 8 if tier == "quick" else 1})
    return specs


def run_shard(spec):
    instrument.install_slot_invariant()
    out = {"evaluations": 0, "fps": set(), "hist": {}, "violations": [], "samples": [], "exhaustive": [],
           "extra": {"configs": 0, "poisoned_bits_skipped": 0, "rtlil_undef_bits_skipped": 0, "coincident_edge_events": 0,
                     "direct_row_writes": 0, "reset_pulses": 0}}
    if spec["kind"] == "enum":
        rng = derive_rng("c11e", spec["seed"])
        for cfg in enum_configs():
            seqs = enum_steps(cfg, rng)
            # one long run per configuration: sequences are concatenated (the model tracks state)
            steps = []
            for k, sq in enumerate(seqs):
                if k % spec["stride"] == 0:
                    steps.extend(sq)
            cosim(cfg, steps, out)
            out["fps"].add(fp(cfg))
        if spec["stride"] == 1:
            out["exhaustive"].append("width 4 x depth 2 x {granularity None,1,2,4} x {transparent, not} x {pos,neg}: all 2-edge letter sequences")
    else:
        rng = derive_rng("c11", spec["seed"], spec["shard"])
        for n in range(spec["configs"]):
            cfg = gen_config(rng)
            steps = gen_steps(cfg, rng, spec["steps"])
            nv = len(out["violations"])
            cosim(cfg, steps, out)
            key = f"ports:r{len(cfg['rports'])}w{len(cfg['wports'])}"
            out["hist"][key] = out["hist"].get(key, 0) + 1
            out["hist"]["shape:" + cfg["shape"][0]] = out["hist"].get("shape:" + cfg["shape"][0], 0) + 1
            if any(p["gran"] is not None for p in cfg["wports"]):
                out["hist"]["granular-write-port"] = out["hist"].get("granular-write-port", 0) + 1
            if any(p["transparent_for"] for p in cfg["rports"]):
                out["hist"]["transparent-read-port"] = out["hist"].get("transparent-read-port", 0) + 1
            if len(cfg["domains"]) > 1:
                out["hist"]["two-domains"] = out["hist"].get("two-domains", 0) + 1
            if cfg["wports"] and cfg["rports"]:
                out["fps"].add(fp(cfg))
            if len(out["samples"]) < 1 and cfg["wports"] and cfg["rports"]:
                out["samples"].append({"config": cfg, "steps": steps[:4]})
            if len(out["violations"]) > 30:
                break
    out["violations"].extend(instrument.VIOLATIONS)
    instrument.VIOLATIONS.clear()
    out["monitors"] = dict(instrument.COUNTERS)
    out["fps"] = sorted(out["fps"])
    return out


def replay(rec):
    import json
    d = rec["detail"]
    out = {"evaluations": 0, "violations": [], "hist": {},
           "extra": {"configs": 0, "poisoned_bits_skipped": 0, "rtlil_undef_bits_skipped": 0, "coincident_edge_events": 0,
                     "direct_row_writes": 0, "reset_pulses": 0}}
    cosim(d["config"], d.get("steps", []), out)
    print(json.dumps(out["violations"][:2], indent=1, default=str)[:3000])
    print("replay:", "VIOLATION reproduced" if out["violations"] else "no violation on this tree")
    return 1 if out["violations"] else 0
