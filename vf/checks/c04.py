"""C04 Emitted RTLIL is behaviourally equivalent to the simulated design."""
from .. import stmt as S
from .. import design as D
from .. import cosim, instrument
from ..common import derive_rng, fp
from . import c02

PROPERTY = "C04"
LEVEL = "exploration"
RULE = ("random Module-DSL programs (the C02 generator: expressions of every operator, If/Switch/FSM, "
        "every assignable target form, comb and sync) scattered over random module trees (1-5 "
        "modules, named and anonymous, statements driving a signal kept together, readers anywhere) "
        "with split signals whose bit ranges are driven from different modules and domains and "
        "partially undriven; each design is converted with explicit ports, parsed by the independent "
        "RTLIL reader and co-simulated step by step (input change | clock edge | reset+edge) against "
        "the Amaranth simulator on every top-level output copy of every driven signal; the same flat "
        "program is emitted under several scatterings. non-trivial = design with >= 2 modules or a "
        "split signal and a conditional construct; distinct by (program skeleton, tree).")
ASSUMPTIONS = ["trusted base: vf/rtlil (parse, cells, eval) = our reading of the published RTLIL cell/process/memory semantics, self-tested in setup_cmd; contested corners evaluate to undef and are skipped (counted)",
               "a stimulus step changes either data inputs or clock/reset, never both",
               "designs with foreign instances are structurally checked (C07) but not evaluated"]
REQUIRED_MONITORS = ["slot_commit"]
MIN_NONTRIVIAL = {"quick": 150, "thorough": 1500}
NSHARDS = 16


def shards(tier, seed):
    n = 800 if tier == "quick" else 9600
    specs = [{"seed": seed, "shard": i, "programs": n // NSHARDS, "nest": 3 if tier == "quick" else 4,
              "stmts": 10 if tier == "quick" else 20, "steps": 24 if tier == "quick" else 40} for i in range(NSHARDS)]
    for i in range(NSHARDS):
        specs.append({"kind": "enum_targets", "part": i, "parts": NSHARDS, "stride": 10 if tier == "quick" else 1})
    for i in range(NSHARDS):
        specs.append({"kind": "expr_layer", "which": "single", "maxw": 2 if tier == "quick" else 3, "part": i, "parts": NSHARDS,
                      "stride": 3 if tier == "quick" else 1})
        specs.append({"kind": "expr_layer", "which": "padded", "maxw": 2, "part": i, "parts": NSHARDS,
                      "stride": 4 if tier == "quick" else 1})
        specs.append({"kind": "expr_layer", "which": "crossing", "maxw": 3 if tier == "quick" else 4, "part": i, "parts": NSHARDS, "stride": 1})
        specs.append({"kind": "expr_layer", "which": "partsel", "maxw": 3 if tier == "quick" else 4, "part": i, "parts": NSHARDS, "stride": 1})
    return specs


def run_target_group(env, targets, cases, out):
    """Enumerated assignment targets (the C05 target grammar): one sync statement `target.eq(vin)` per
    target, enabled one at a time; simulator and evaluated RTLIL must leave every signal equal."""
    from amaranth.hdl import Signal, Module, Shape, Cat, ClockDomain, signed
    from amaranth.hdl._ir import PortDirection as PD
    from amaranth.sim import Simulator
    from amaranth.back import rtlil
    from .. import target as T
    from ..common import exc_origin, mask
    from ..rtlil import parse as P, eval as E
    nbits = sum(w for w, s in env)

    def make():
        sigs = [Signal(Shape(w, s), name=f"s{k}") for k, (w, s) in enumerate(env)]
        m = Module()
        cd = ClockDomain("sync", reset_less=True)
        m.domains.sync = cd
        vin = Signal(signed(24), name="vin")
        en = Signal(max(len(targets), 1), name="en")
        load = Signal(name="load")
        loadval = Signal(max(nbits, 1), name="loadval")
        with m.If(load):
            m.d.sync += Cat(*sigs).eq(loadval)
        with m.Else():
            for k, t in enumerate(targets):
                with m.If(en[k]):
                    m.d.sync += T.build(t, sigs).eq(vin)
        outs = []
        for k, sg in enumerate(sigs):
            o = Signal(len(sg), name=f"o{k}")
            m.d.comb += o.eq(sg)
            outs.append(o)
        ports = {"vin": (vin, PD.Input), "en": (en, PD.Input), "load": (load, PD.Input), "loadval": (loadval, PD.Input),
                 "clk": (cd.clk, PD.Input)}
        for k, o in enumerate(outs):
            ports[f"o{k}"] = (o, PD.Output)
        return m, cd, sigs, vin, en, load, loadval, outs, ports
    try:
        m, cd, sigs, vin, en, load, loadval, outs, ports = make()
        sim = Simulator(m)
        m2 = make()
        ev = E.Evaluator(P.parse(rtlil.convert(m2[0], ports=m2[8], emit_src=False)))
    except (P.ParseError, E.EvalError) as ex:
        out["violations"].append({"mechanism": "enum-target-rtlil-unreadable", "detail": {"env": env, "targets": targets[:3], "error": str(ex)[:200]}})
        return
    except Exception as ex:
        if exc_origin(ex) != "repo":
            raise
        if len(targets) > 1:
            for t in targets:
                run_target_group(env, [t], cases, out)
            return
        out["violations"].append({"mechanism": f"enum-target-build-exception:{type(ex).__name__}",
                                  "detail": {"env": env, "target": targets[0], "exception": repr(ex)[:200]}})
        return
    for n in ("vin", "en", "load", "loadval", "clk"):
        ev.set(n, 0)
    ev.step()
    bad = []

    def pulse_ev():
        ev.set("clk", 1)
        ev.step()
        ev.set("clk", 0)
        ev.step()

    async def tb(ctx):
        for k, t in enumerate(targets):
            for (sigma, v) in cases:
                packed = 0
                pos = 0
                for (w, s), val in zip(env, sigma):
                    packed |= (val & mask(w)) << pos
                    pos += w
                ctx.set(load, 1)
                ctx.set(loadval, packed)
                ctx.set(cd.clk, 1)
                ctx.set(cd.clk, 0)
                ctx.set(load, 0)
                ctx.set(en, 1 << k)
                ctx.set(vin, v)
                ctx.set(cd.clk, 1)
                ctx.set(cd.clk, 0)
                ev.set("load", 1)
                ev.set("loadval", packed)
                pulse_ev()
                ev.set("load", 0)
                ev.set("en", 1 << k)
                ev.set("vin", v & mask(24))
                pulse_ev()
                out["evaluations"] += 1
                for j, sg in enumerate(sigs):
                    sv = ctx.get(sg) & mask(len(sg))
                    rv, rx = ev.get(f"o{j}")
                    if rx:
                        out["extra"]["skipped_undef_bits"] += bin(rx).count("1")
                    if (sv & ~rx) != (rv & ~rx):
                        # third opinion: the documented semantics (vf/target.py apply_write)
                        try:
                            doc = T.apply_write(t, env, list(sigma), v)[j] & mask(len(sg))
                        except Exception:
                            doc = None
                        who = "circuit" if doc is not None and (rv & ~rx) == (doc & ~rx) else "rtlil" if doc == sv else "unknown"
                        bad.append({"env": env, "target": t, "state": list(sigma), "value": v, "signal": j, "simulator": sv,
                                    "rtlil": rv, "rtlil_undef": rx, "documented": doc, "deviates": who})
                        break
                if bad and bad[-1]["target"] is t:
                    break
    sim.add_testbench(tb)
    sim.run()
    seen = set()
    for b in bad:
        kinds = "+".join(sorted(set(T.forms(b["target"])))) if hasattr(T, "forms") else b["target"][0]
        if kinds in seen:
            continue
        seen.add(kinds)
        out["violations"].append({"mechanism": "enum-target-simulator-vs-rtlil:" + kinds, "detail": b})


def run_expr_group(env, exprs, valuations, out):
    """Expressions as comb outputs: simulator vs evaluated RTLIL (vs exprref as third opinion)."""
    from amaranth.hdl import Signal, Module, Shape, Cat
    from amaranth.hdl._ir import PortDirection as PD
    from amaranth.sim import Simulator
    from amaranth.back import rtlil
    from .. import expr as X
    from ..common import exc_origin, mask
    from ..rtlil import parse as P, eval as E
    env = [tuple(x) for x in env]

    def make():
        sigs = [Signal(Shape(w, s), name=f"i{k}") for k, (w, s) in enumerate(env)]
        m = Module()
        outs = []
        for k, e in enumerate(exprs):
            v = X.build(e, sigs)
            o = Signal(v.shape(), name=f"o{k}")
            m.d.comb += o.eq(v)
            outs.append(o)
        ports = {f"i{k}": (sg, PD.Input) for k, sg in enumerate(sigs)}
        ports.update({f"o{k}": (o, PD.Output) for k, o in enumerate(outs)})
        return m, sigs, outs, ports
    try:
        m, sigs, outs, ports = make()
        sim = Simulator(m)
        m2 = make()
        ev = E.Evaluator(P.parse(rtlil.convert(m2[0], ports=m2[3], emit_src=False)))
    except (P.ParseError, E.EvalError) as ex:
        out["violations"].append({"mechanism": "expr-layer-rtlil-unreadable", "detail": {"env": env, "exprs": exprs[:2], "error": str(ex)[:200]}})
        return
    except Exception as ex:
        if exc_origin(ex) != "repo":
            raise
        if len(exprs) > 1:
            for e in exprs:
                run_expr_group(env, [e], valuations, out)
            return
        out["violations"].append({"mechanism": f"expr-layer-build-exception:{type(ex).__name__}", "detail": {"env": env, "expr": exprs[0], "exception": repr(ex)[:200]}})
        return
    bad = {}

    async def tb(ctx):
        for vals in valuations:
            for sg, v in zip(sigs, vals):
                ctx.set(sg, v)
            for k, ((w, s), v) in enumerate(zip(env, vals)):
                try:
                    ev.set(f"i{k}", v & mask(w))
                except E.EvalError:
                    pass
            ev.step()
            for k, o in enumerate(outs):
                if k in bad:
                    continue
                w = len(o)
                sv = ctx.get(o) & mask(w)
                rv, rx = ev.get(f"o{k}")
                out["evaluations"] += 1
                if rx:
                    out["extra"]["skipped_undef_bits"] += bin(rx).count("1")
                if (sv & ~rx) != (rv & ~rx):
                    try:
                        doc = X.ref_eval(exprs[k], env, list(vals)) & mask(w)
                    except Exception:
                        doc = None
                    bad[k] = {"env": env, "expr": exprs[k], "vals": list(vals), "simulator": sv, "rtlil": rv, "rtlil_undef": rx,
                              "documented": doc, "deviates": "rtlil" if doc == sv else "simulator" if doc is not None and (doc & ~rx) == (rv & ~rx) else "unknown"}
    sim.add_testbench(tb)
    sim.run()
    seen = set()
    for k, b in bad.items():
        key = (b["expr"][0], b["deviates"])
        if key in seen:
            continue
        seen.add(key)
        out["violations"].append({"mechanism": f"expr-layer-simulator-vs-rtlil:{b['expr'][0]}:{b['deviates']}", "detail": b})


def padded_operand_exprs(maxw):
    """Binary/unary operators over operands with constant padding bits (what the backend's operand
    shortening looks at): Cat(x, 0...), Cat(x, 1), sign reinterpretations of those, constants."""
    from .. import expr as X
    from .c01 import shapes_upto
    A, B = ["sig", 0], ["sig", 1]

    def forms(x):
        return [x, ["as_signed", ["cat", [x, ["constsh", 0, 1, False]]]], ["cat", [x, ["constsh", 0, 2, False]]],
                ["as_signed", ["cat", [x, ["constsh", 1, 1, False]]]], ["as_signed", ["cat", [x, ["constsh", 0, 2, False]]]],
                ["cat", [["constsh", 0, 1, False], x]], ["as_signed", x], ["as_unsigned", x]]
    S = [s for s in shapes_upto(maxw) if s[0] >= 1]
    for a in S:
        for b in S:
            env = [a, b]
            for fa in forms(A):
                for fb in forms(B)[:5]:
                    for op in X.BINARY:
                        yield env, [op, fa, fb]
        for fa in forms(A):
            for op in ("neg", "inv", "abs", "bool", "any", "all", "xorr"):
                yield [a], [op, fa]
            for n in (0, 1, 2):
                yield [a], ["shift_right", fa, n]
                yield [a], ["shift_left", fa, n]


def crossing_cat_exprs(maxw):
    """Concatenations whose pieces continue each other's bit numbering on *different* signals (a run of
    consecutive bit indices that crosses from one wire to another), bare and as operands."""
    from .c01 import shapes_upto
    A, B = ["sig", 0], ["sig", 1]
    S = [s for s in shapes_upto(maxw) if s[0] >= 2 and not s[1]]
    for a in S:
        for b in S:
            env = [a, b]
            for k in range(1, min(a[0], b[0])):
                for hi in range(k + 1, b[0] + 1):
                    cont = ["cat", [["slice", A, 0, k, None], ["slice", B, k, hi, None]]]
                    yield env, cont
                    yield env, ["inv", cont]
                    yield env, ["add", cont, ["cat", [["slice", B, 0, k, None], ["slice", A, k, a[0], None]]]]
                    yield env, ["cat", [["slice", A, 0, k, None], ["slice", B, k, hi, None], ["slice", A, hi, a[0], None]]]


def part_select_exprs(maxw):
    """Dynamic part selects (windows that may reach past the end of the operand) over operands whose compiled form
    is not confined to their shape: complements, negations, sign reinterpretations."""
    from .c01 import shapes_upto
    A, B = ["sig", 0], ["sig", 1]
    S = [s for s in shapes_upto(maxw) if s[0] >= 1]
    U = [s for s in S if not s[1] and s[0] <= 2]
    for a in S:
        forms = [A, ["inv", A], ["neg", A], ["as_unsigned", A], ["as_signed", A], ["as_unsigned", ["neg", A]],
                 ["as_signed", ["inv", A]], ["as_unsigned", ["as_signed", A]]]
        for b in U:
            for f in forms:
                for n in (1, 2, 3):
                    yield [a, b], ["bit_select", f, B, n]
                    yield [a, b], ["word_select", f, B, n]


def run_expr_layer(spec, out):
    from .. import expr as X
    from .. import exprsim
    from .c01 import enum_single, group_by_env
    pairs = []
    src = list({"single": enum_single, "padded": padded_operand_exprs, "crossing": crossing_cat_exprs, "partsel": part_select_exprs}[spec["which"]](spec["maxw"]))
    for env, e in src:
        try:
            X.ref_shape(e, [tuple(x) for x in env])
        except X.IllFormed:
            continue
        pairs.append((env, e))
    groups = list(group_by_env(pairs, 40))[spec["part"]::spec["parts"]]
    if spec.get("stride", 1) > 1:
        groups = groups[::spec["stride"]]
    n = 0
    for env, exprs in groups:
        run_expr_group(env, exprs, list(exprsim.all_valuations([tuple(x) for x in env])), out)
        n += len(exprs)
        for e in exprs[:3]:
            out["fps"].add(fp(["expr", env, e]))
    out["extra"]["enumerated_expressions"] = out["extra"].get("enumerated_expressions", 0) + n
    if spec.get("stride", 1) == 1:
        out["exhaustive"].append(f"expression layer '{spec['which']}' widths<={spec['maxw']} x all values: simulator vs evaluated RTLIL")


def run_enum_targets(spec, out):
    from . import c05
    from .. import target as T_
    from ..common import corner_values
    env, targets = c05.enum_write_targets()
    mine = targets[spec["part"]::spec["parts"]]
    if spec.get("stride", 1) > 1:
        mine = mine[::spec["stride"]]
    # windows over array proxies whose elements are narrower than the proxy (nesting 3): bits beyond
    # the selected element must be dropped at the element, whatever the element is
    S0, S1, OFF, B1 = ["sig", 0], ["sig", 1], ["sig", 2], ["sig", 4]
    narrow = [["part", S0, OFF, 1, 1, "bit"], ["part", S0, OFF, 2, 1, "bit"], ["part", S0, OFF, 2, 2, "word"],
              ["part", S0, ["const", 1], 2, 1, "bit"], ["slice", S0, 1, 3], ["as_signed", ["slice", S0, 0, 2]],
              ["cat", [["slice", S0, 0, 1], ["slice", S0, 2, 3]]], ["part", ["slice", S0, 0, 3], OFF, 2, 1, "bit"]]
    extra = []
    for e in narrow:
        for arr in (["array", [e, S1], B1], ["array", [S1, e], B1], ["array", [e, ["slice", S0, 0, 4]], B1]):
            for a in range(0, 6):
                for b in (a + 1, a + 2, 6):
                    if a < b <= 6:
                        extra.append(["slice", arr, a, b])
            for pw in (1, 2, 3):
                extra.append(["part", arr, OFF, pw, 1, "bit"])
                extra.append(["part", arr, OFF, pw, pw, "word"])
    ok = []
    for t in extra:
        try:
            T_.t_shape(t, env)
            ok.append(t)
        except Exception:
            pass
    mine = mine + ok[spec["part"]::spec["parts"]]
    rng = derive_rng("c04t", spec["part"])
    per = [corner_values(w, s) for (w, s) in env]
    cases = []
    for _ in range(6):
        sigma = tuple(rng.choice(p) for p in per)
        cases.append((sigma, rng.choice([0, -1, 1, 5, -6, 0x155, rng.randrange(-4096, 4096)])))
    for i in range(0, len(mine), 12):
        run_target_group(env, mine[i:i + 12], cases, out)
    out["extra"]["enumerated_targets"] = out["extra"].get("enumerated_targets", 0) + len(mine)
    for t in mine[:400]:
        out["fps"].add(fp(["target", t]))
    if spec.get("stride", 1) == 1:
        out["exhaustive"].append("every assignment-target form of nesting <= 2 (C05 target grammar, 9.6 k targets) as a sync statement: simulator vs evaluated RTLIL")


def run_shard(spec):
    instrument.install_slot_invariant()
    out = {"evaluations": 0, "fps": set(), "hist": {}, "violations": [], "samples": [], "exhaustive": [],
           "extra": {"skipped_undef_bits": 0, "designs": 0, "documents": 0}}
    if spec.get("kind") in ("enum_targets", "expr_layer"):
        if spec["kind"] == "enum_targets":
            run_enum_targets(spec, out)
        else:
            run_expr_layer(spec, out)
        out["violations"].extend(instrument.VIOLATIONS)
        instrument.VIOLATIONS.clear()
        out["monitors"] = dict(instrument.COUNTERS)
        out["fps"] = sorted(out["fps"])
        return out
    rng = derive_rng("c04", spec["seed"], spec["shard"])
    try:
        from . import c07
        check_doc = lambda doc, text, design: c07.check_into(doc, out, {"design": design})
    except ImportError:
        check_doc = None
    for n in range(spec["programs"]):
        g = S.Gen(rng, max_nest=rng.randint(1, spec["nest"]), max_stmts=rng.randint(2, spec["stmts"]))
        sp = g.spec()
        if rng.random() < 0.25:
            sp.d["negedge"] = True          # the sync domain is clocked on the falling edge ($dff CLK_POLARITY 0)
            out["hist"]["negedge-sync-domain"] = out["hist"].get("negedge-sync-domain", 0) + 1
        steps = c02.make_stimulus(rng, sp, spec["steps"])
        nscat = 1 if n % 3 else 3
        for k in range(nscat):
            design = D.scatter(sp, rng, nmod=1 if (k == 0 and nscat == 3) else None)
            nv = len(out["violations"])
            text = cosim.run(design, steps, out, check_doc=check_doc)
            out["extra"]["designs"] += 1
            if text is not None:
                out["extra"]["documents"] += 1
            nmod = len(design["tree"])
            out["hist"][f"modules:{nmod}"] = out["hist"].get(f"modules:{nmod}", 0) + 1
            out["hist"][f"splits:{len(design['splits'])}"] = out["hist"].get(f"splits:{len(design['splits'])}", 0) + 1
            kinds = S.stmt_kinds(sp.stmts)
            cond = kinds.get("if", 0) + kinds.get("switch", 0) + kinds.get("fsm", 0)
            if (nmod >= 2 or design["splits"]) and cond:
                out["fps"].add(fp([S.skeleton(sp.stmts), design["tree"], design["place"]]))
            if len(out["samples"]) < 1 and nmod >= 3 and cond:
                out["samples"].append({"design": design, "steps": steps[:3]})
            if len(out["violations"]) > nv + 3:
                break
    # memory-only designs: nothing but the memory changes at a clock edge (the comb read port must
    # still follow the write in the same instant)
    for n in range(max(2, spec["programs"] // 8)):
        aw = rng.choice([1, 2])
        d = {"inputs": [[aw, False], [4, rng.random() < 0.3], [1, False], [aw, False]], "comb": [], "sync": [], "fsms": [], "stmts": []}
        sp = S.Spec(d)
        design = {"spec": d, "tree": [-1, 0], "anon": [False, rng.random() < 0.5], "place": [], "splits": [],
                  "mem": {"mod": rng.randrange(2), "w": 4, "depth": rng.choice([2, 3, 4]) if aw == 2 else 2, "wa": 0, "wd": 1, "we": 2, "ra": 3,
                          "transparent": rng.random() < 0.5, "init": [rng.getrandbits(4) for _ in range(4)],
                          "sync_read": rng.random() < 0.4}}
        steps = c02.make_stimulus(rng, sp, spec["steps"] * 2)
        cosim.run(design, steps, out, check_doc=check_doc)
        out["extra"]["designs"] += 1
        out["hist"]["memory-only-design"] = out["hist"].get("memory-only-design", 0) + 1
    out["violations"].extend(instrument.VIOLATIONS)
    instrument.VIOLATIONS.clear()
    out["monitors"] = dict(instrument.COUNTERS)
    out["fps"] = sorted(out["fps"])
    return out


def replay(rec):
    import json
    d = rec["detail"]
    out = {"evaluations": 0, "hist": {}, "violations": [], "extra": {"skipped_undef_bits": 0}}
    text = cosim.run(d["design"], d.get("steps", []), out)
    print(json.dumps(out["violations"][:2], indent=1, default=str)[:3000])
    print("replay:", "VIOLATION reproduced" if out["violations"] else "no violation on this tree")
    return 1 if out["violations"] else 0
