"""C04 Emitted RTLIL is behaviourally equivalent to the simulated design."""
from .. import stmt as S
from .. import design as D
from .. import cosim, instrument
from ..common import derive_rng, fp
from . import c02

PROPERTY = "C04"
LEVEL = "exploration"
RULE = ("random Module-DSL programs (the C02 generator: expressions of every operator, If/Switch/FSM, "
        "every assignable target form, comb and sync) scattered over random module trees (1-5 "
        "modules, named and anonymous, statements driving a signal kept together, readers anywhere) "
        "with split signals whose bit ranges are driven from different modules and domains and "
        "partially undriven; each design is converted with explicit ports, parsed by the independent "
        "RTLIL reader and co-simulated step by step (input change | clock edge | reset+edge) against "
        "the Amaranth simulator on every top-level output copy of every driven signal; the same flat "
        "program is emitted under several scatterings. non-trivial = design with >= 2 modules or a "
        "split signal and a conditional construct; distinct by (program skeleton, tree).")
ASSUMPTIONS = ["trusted base: vf/rtlil (parse, cells, eval) = our reading of the published RTLIL cell/process/memory semantics, self-tested in setup_cmd; contested corners evaluate to undef and are skipped (counted)",
               "a stimulus step changes either data inputs or clock/reset, never both",
               "designs with foreign instances are structurally checked (C07) but not evaluated"]
REQUIRED_MONITORS = ["slot_commit"]
MIN_NONTRIVIAL = {"quick": 150, "thorough": 1500}
NSHARDS = 16


def shards(tier, seed):
    n = 800 if tier == "quick" else 9600
    return [{"seed": seed, "shard": i, "programs": n // NSHARDS, "nest": 3 if tier == "quick" else 4,
             "stmts": 10 if tier == "quick" else 20, "steps": 24 if tier == "quick" else 40} for i in range(NSHARDS)]


def run_shard(spec):
    instrument.install_slot_invariant()
    out = {"evaluations": 0, "fps": set(), "hist": {}, "violations": [], "samples": [], "exhaustive": [],
           "extra": {"skipped_undef_bits": 0, "designs": 0, "documents": 0}}
    rng = derive_rng("c04", spec["seed"], spec["shard"])
    try:
        from . import c07
        check_doc = lambda doc, text, design: c07.check_into(doc, out, {"design": design})
    except ImportError:
        check_doc = None
    for n in range(spec["programs"]):
        g = S.Gen(rng, max_nest=rng.randint(1, spec["nest"]), max_stmts=rng.randint(2, spec["stmts"]))
        sp = g.spec()
        steps = c02.make_stimulus(rng, sp, spec["steps"])
        nscat = 1 if n % 3 else 3
        for k in range(nscat):
            design = D.scatter(sp, rng, nmod=1 if (k == 0 and nscat == 3) else None)
            nv = len(out["violations"])
            text = cosim.run(design, steps, out, check_doc=check_doc)
            out["extra"]["designs"] += 1
            if text is not None:
                out["extra"]["documents"] += 1
            nmod = len(design["tree"])
            out["hist"][f"modules:{nmod}"] = out["hist"].get(f"modules:{nmod}", 0) + 1
            out["hist"][f"splits:{len(design['splits'])}"] = out["hist"].get(f"splits:{len(design['splits'])}", 0) + 1
            kinds = S.stmt_kinds(sp.stmts)
            cond = kinds.get("if", 0) + kinds.get("switch", 0) + kinds.get("fsm", 0)
            if (nmod >= 2 or design["splits"]) and cond:
                out["fps"].add(fp([S.skeleton(sp.stmts), design["tree"], design["place"]]))
            if len(out["samples"]) < 1 and nmod >= 3 and cond:
                out["samples"].append({"design": design, "steps": steps[:3]})
            if len(out["violations"]) > nv + 3:
                break
    out["violations"].extend(instrument.VIOLATIONS)
    instrument.VIOLATIONS.clear()
    out["monitors"] = dict(instrument.COUNTERS)
    out["fps"] = sorted(out["fps"])
    return out


def replay(rec):
    import json
    d = rec["detail"]
    out = {"evaluations": 0, "hist": {}, "violations": [], "extra": {"skipped_undef_bits": 0}}
    text = cosim.run(d["design"], d.get("steps", []), out)
    print(json.dumps(out["violations"][:2], indent=1, default=str)[:3000])
    print("replay:", "VIOLATION reproduced" if out["violations"] else "no violation on this tree")
    return 1 if out["violations"] else 0
