"""C03 Clock domains, resets and control inserters behave as specified."""
import itertools

from .. import instrument
from ..common import derive_rng, fp, exc_origin, mask, norm
from ..rtlil import parse as P, eval as E

PROPERTY = "C03"
LEVEL = "exploration"
RULE = ("random designs with 1-3 clock domains (pos/neg edge; sync, async or no reset), 2-6 registers incl. "
        "reset-less ones and registers whose bit ranges belong to different domains, module trees of "
        "depth <= 3 with <= 3/5 nested ResetInserter / EnableInserter / DomainRenamer wrappers at any "
        "node (controls are inputs; renames through virtual domain names, merges onto used domains), an "
        "optional memory with a write and a synchronous read port inside the wrapped subtree; events: "
        "input changes | level changes of any set of clocks at once (coincident edges) | reset level "
        "changes; after every event every register, the read data and every memory row of the "
        "Amaranth simulator is compared with regref (per-bit domain membership, wrapper layering "
        "inner->outer, domain reset on top) and with the independent evaluation of the emitted RTLIL. "
        "enumerate: one register x {pos,neg} x {sync,async,none} x reset_less x all wrapper nestings of "
        "depth <= 2 x all 4-event sequences. distinct/non-trivial = distinct designs with a wrapper or "
        ">= 2 domains.")
ASSUMPTIONS = ["regref (this file): next = statement result; wrappers applied innermost first (ResetInserter: ctrl ? init : next unless reset-less; EnableInserter: ctrl ? next : old); then the domain's own reset (sync: at the edge; async: as soon as rst rises and at every edge while high)",
               "data/control inputs never change in the same event as a clock or reset level",
               "flip-flops clocked from their own outputs are not generated"]
REQUIRED_MONITORS = ["slot_commit"]
MIN_NONTRIVIAL = {"quick": 300, "thorough": 3000}
NSHARDS = 16

REAL = ["da", "db", "dc"]
VIRT = ["v0", "v1"]


# ---- generator --------------------------------------------------------------------------------------
def gen_design(rng, max_wrappers=3):
    nd = rng.choice([1, 1, 2, 2, 3])
    domains = [{"name": REAL[k], "edge": rng.choice(["pos", "pos", "neg"]), "reset": rng.choice(["sync", "sync", "async", "none"])}
               for k in range(nd)]
    real = [d["name"] for d in domains]
    nmod = rng.randrange(1, 5)
    tree = [-1] + [rng.randrange(0, k) for k in range(1, nmod)]
    nctrl = rng.randrange(2, 6)
    wrappers = [[] for _ in range(nmod)]
    budget = rng.randrange(0, max_wrappers + 1)
    for _ in range(budget):
        k = rng.randrange(nmod)
        kind = rng.choice(["reset", "enable", "enable", "rename"])
        if kind == "rename":
            if rng.random() < 0.35 and len(real) >= 2:
                # several renames at once, chained or exchanging ({"a": "b", "b": "a"}): one simultaneous substitution
                srcs = rng.sample(real + VIRT, rng.choice([2, 2, 3]))
                mp = {}
                for sname in srcs:
                    mp[sname] = rng.choice([x for x in real if x != sname] or real)
                if rng.random() < 0.5:
                    a_, b_ = rng.sample(real, 2)
                    mp = {a_: b_, b_: a_} if rng.random() < 0.5 else {b_: a_, a_: b_}
                wrappers[k].append({"kind": "rename", "map": mp})
            else:
                src = rng.choice(real + VIRT + VIRT)
                wrappers[k].append({"kind": "rename", "map": {src: rng.choice(real)}})
        elif rng.random() < 0.35:
            # one inserter call with controls for several domains
            names = rng.sample(real + VIRT, min(len(real + VIRT), rng.choice([2, 2, 3])))
            wrappers[k].append({"kind": kind, "ctl": {nm: rng.randrange(nctrl) for nm in names}})
        else:
            wrappers[k].append({"kind": kind, "dom": rng.choice(real + VIRT), "ctrl": rng.randrange(nctrl)})
    force = None
    if len(real) >= 2 and rng.random() < 0.25:
        # a memory directly under a renamer whose map chains or exchanges domains, with a port in the first-listed one
        a_, b_ = rng.sample(real, 2)
        c_ = rng.choice(real)
        mp = rng.choice([{a_: b_, b_: a_}, {a_: b_, b_: c_}, {"v0": a_, a_: b_}, {a_: b_, "v1": a_, b_: a_}])
        force = (rng.randrange(nmod), next(iter(mp)))
        wrappers[force[0]].insert(0, {"kind": "rename", "map": mp})
    design = {"domains": domains, "tree": tree, "wrappers": wrappers, "nctrl": nctrl, "regs": [], "mem": None}

    def pick_dom(mod):
        for _ in range(20):
            name = rng.choice(real + VIRT)
            if resolve(design, mod, name)[0] in real:
                return name
        for name in real:
            if resolve(design, mod, name)[0] in real:
                return name
        return None
    for r in range(rng.randrange(2, 7)):
        w = rng.choice([1, 2, 3, 4, 4, 6, 8])
        cuts = []
        if w >= 2 and rng.random() < 0.3:
            cuts = [rng.randrange(1, w)]
        bounds = [0] + cuts + [w]
        parts = []
        for lo, hi in zip(bounds, bounds[1:]):
            mod = rng.randrange(nmod)
            dom = pick_dom(mod)
            if dom is None:
                continue
            parts.append({"lo": lo, "hi": hi, "mod": mod, "dom": dom, "kind": rng.choice(["inc", "load", "xor"]),
                          "cond": rng.choice([None, None, rng.randrange(nctrl)])})
        if parts:
            design["regs"].append({"w": w, "init": rng.getrandbits(w), "reset_less": rng.random() < 0.25, "parts": parts,
                                   "signed": rng.random() < 0.35})
    for r in range(rng.choice([0, 0, 1, 2])):
        # a four-state FSM placed in a domain with m.FSM(domain=...): its state register is a 2-bit counter
        mod = rng.randrange(nmod)
        dom = pick_dom(mod)
        if dom is not None:
            design["regs"].append({"w": 2, "init": rng.randrange(4), "reset_less": False, "fsm": True,
                                   "parts": [{"lo": 0, "hi": 2, "mod": mod, "dom": dom, "kind": "inc",
                                              "cond": rng.choice([None, rng.randrange(nctrl)])}]})
    if rng.random() < 0.4 or force is not None:
        mod = rng.randrange(nmod)
        dom = pick_dom(mod)
        if force is not None and resolve(design, force[0], force[1])[0] in real:
            mod, dom = force
        if dom is not None:
            design["mem"] = {"mod": mod, "dom": dom, "depth": rng.choice([2, 3, 4]), "w": 4}
    return design


def resolve(design, mod, name):
    """Effective (real domain name, control layers inner->outer) of logic in domain `name` of module `mod`."""
    layers = []
    k = mod
    while k != -1:
        for w in design["wrappers"][k]:
            if w["kind"] == "rename":
                name = w["map"].get(name, name)
            elif "ctl" in w:
                if name in w["ctl"]:
                    layers.append((w["kind"], w["ctl"][name]))
            elif w["dom"] == name:
                layers.append((w["kind"], w["ctrl"]))
        k = design["tree"][k]
    return name, layers


# ---- build ------------------------------------------------------------------------------------------
class Built:
    pass


def build(design):
    from amaranth.hdl import Module, Signal, ClockDomain, ResetInserter, EnableInserter, DomainRenamer, Value
    from amaranth.lib.memory import Memory
    b = Built()
    nmod = len(design["tree"])
    mods = [Module() for _ in range(nmod)]
    b.ctrl = [Signal(name=f"c{k}") for k in range(design["nctrl"])]
    b.din = Signal(8, name="din")
    b.regs = []
    for r, rg in enumerate(design["regs"]):
        if rg.get("fsm"):
            p = rg["parts"][0]
            m = mods[p["mod"]]
            enc = Signal(2, name=f"r{r}")          # the current state, decoded combinationally
            b.regs.append(enc)
            with m.FSM(domain=p["dom"], init=f"S{rg['init']}", name=f"fsm{r}"):
                for k in range(4):
                    with m.State(f"S{k}"):
                        m.d.comb += enc.eq(k)
                        if p["cond"] is None:
                            m.next = f"S{(k + 1) % 4}"
                        else:
                            with m.If(b.ctrl[p["cond"]]):
                                m.next = f"S{(k + 1) % 4}"
            continue
        if rg.get("signed"):
            from amaranth.hdl import Shape
            sig = Signal(Shape(rg["w"], True), name=f"r{r}", init=norm(rg["init"], rg["w"], True), reset_less=rg["reset_less"])
        else:
            sig = Signal(rg["w"], name=f"r{r}", init=rg["init"], reset_less=rg["reset_less"])
        b.regs.append(sig)
        for p in rg["parts"]:
            tgt = sig[p["lo"]:p["hi"]]
            n = p["hi"] - p["lo"]
            d = b.din[:n] if n <= 8 else b.din
            e = {"inc": tgt + 1, "load": d, "xor": tgt ^ d}[p["kind"]]
            m = mods[p["mod"]]
            if p["cond"] is None:
                m.d[p["dom"]] += tgt.eq(e)
            else:
                with m.If(b.ctrl[p["cond"]]):
                    m.d[p["dom"]] += tgt.eq(e)
    b.mem = None
    if design["mem"]:
        me = design["mem"]
        mem = Memory(shape=me["w"], depth=me["depth"], init=list(range(1, me["depth"] + 1)))
        mods[me["mod"]].submodules.mem = mem
        b.wp = mem.write_port(domain=me["dom"])
        b.rp = mem.read_port(domain=me["dom"])
        b.mem = mem
        b.maddr = Signal(2, name="maddr")
        b.men = Signal(2, name="men")      # bit0 write enable, bit1 read enable
        mm = mods[me["mod"]]
        mm.d.comb += [b.wp.addr.eq(b.maddr), b.rp.addr.eq(b.maddr), b.wp.data.eq(b.din[:me["w"]]),
                      b.wp.en.eq(b.men[0]), b.rp.en.eq(b.men[1])]
    objs = list(mods)
    for k in range(nmod - 1, -1, -1):
        o = mods[k]
        for w in design["wrappers"][k]:
            if w["kind"] == "rename":
                o = DomainRenamer(dict(w["map"]))(o)
            else:
                ctl = w["ctl"] if "ctl" in w else {w["dom"]: w["ctrl"]}
                ctl = {nm: b.ctrl[c] for nm, c in ctl.items()}
                o = ResetInserter(ctl)(o) if w["kind"] == "reset" else EnableInserter(ctl)(o)
        objs[k] = o
        if k > 0:
            setattr(mods[design["tree"][k]].submodules, f"m{k}", o)
    shell = Module()
    b.cds = {}
    for d in design["domains"]:
        cd = ClockDomain(d["name"], clk_edge=d["edge"], reset_less=d["reset"] == "none", async_reset=d["reset"] == "async")
        setattr(shell.domains, d["name"], cd)
        b.cds[d["name"]] = cd
    shell.submodules.dut = objs[0]
    b.outs = []
    for r, sig in enumerate(b.regs):
        o = Signal(len(sig), name=f"out{r}")
        shell.d.comb += o.eq(sig)
        b.outs.append(o)
    if b.mem is not None:
        b.rdata = Signal(design["mem"]["w"], name="rdata")
        shell.d.comb += b.rdata.eq(b.rp.data)
    b.top = shell
    return b


def port_map(b, design):
    from amaranth.hdl._ir import PortDirection as PD
    ports = {}
    for k, c in enumerate(b.ctrl):
        ports[f"c{k}"] = (c, PD.Input)
    ports["din"] = (b.din, PD.Input)
    for d in design["domains"]:
        cd = b.cds[d["name"]]
        ports[f"{d['name']}_clk"] = (cd.clk, PD.Input)
        if cd.rst is not None:
            ports[f"{d['name']}_rst"] = (cd.rst, PD.Input)
    if b.mem is not None:
        ports["maddr"] = (b.maddr, PD.Input)
        ports["men"] = (b.men, PD.Input)
        ports["rdata"] = (b.rdata, PD.Output)
    for r, o in enumerate(b.outs):
        ports[f"out{r}"] = (o, PD.Output)
    return ports


# ---- regref -----------------------------------------------------------------------------------------
class RegRef:
    def __init__(self, design):
        self.d = design
        self.dom = {x["name"]: x for x in design["domains"]}
        self.regs = [rg["init"] & mask(rg["w"]) for rg in design["regs"]]
        self.ctrl = [0] * design["nctrl"]
        self.din = 0
        self.clk = {n: 0 for n in self.dom}
        self.rst = {n: 0 for n in self.dom}
        self.parts = []
        for r, rg in enumerate(design["regs"]):
            for p in rg["parts"]:
                real, layers = resolve(design, p["mod"], p["dom"])
                self.parts.append((r, p, real, layers))
        self.mem = None
        if design["mem"]:
            me = design["mem"]
            real, layers = resolve(design, me["mod"], me["dom"])
            self.mem = {"rows": list(range(1, me["depth"] + 1)), "rdata": 0, "dom": real,
                        "enables": [c for (k, c) in layers if k == "enable"], "addr": 0, "en": 0}

    def fire(self, doms):
        """Active edges of the real domains in `doms` at one instant."""
        new = {}
        for (r, p, real, layers) in self.parts:
            if real not in doms:
                continue
            rg = self.d["regs"][r]
            n = p["hi"] - p["lo"]
            m = mask(n)
            old = (self.regs[r] >> p["lo"]) & m
            init = (rg["init"] >> p["lo"]) & m
            d = self.din & m
            nxt = {"inc": (old + 1) & m, "load": d, "xor": old ^ d}[p["kind"]]
            if p["cond"] is not None and not self.ctrl[p["cond"]]:
                nxt = old
            for kind, c in layers:
                if kind == "reset":
                    if self.ctrl[c] and not rg["reset_less"]:
                        nxt = init
                else:
                    if not self.ctrl[c]:
                        nxt = old
            if self.dom[real]["reset"] != "none" and self.rst[real] and not rg["reset_less"]:
                nxt = init
            new[(r, p["lo"], n)] = nxt
        if self.mem and self.mem["dom"] in doms:
            me = self.mem
            gate = all(self.ctrl[c] for c in me["enables"])
            rows = me["rows"]
            a = me["addr"]
            if (me["en"] >> 1) & 1 and gate:
                me["rdata"] = rows[a] if a < len(rows) else None     # None = unspecified
            if me["en"] & 1 and gate and a < len(rows):
                rows[a] = self.din & mask(self.d["mem"]["w"])
        for (r, lo, n), v in new.items():
            self.regs[r] = (self.regs[r] & ~(mask(n) << lo)) | (v << lo)

    def set_clk(self, levels):
        """levels: {domain: new level}; all at once."""
        firing = set()
        for n, lv in levels.items():
            if lv != self.clk[n]:
                if (self.dom[n]["edge"] == "pos") == (lv == 1):
                    firing.add(n)
                self.clk[n] = lv
        if firing:
            self.fire(firing)
        return firing

    def set_rst(self, name, lv):
        rising = lv == 1 and self.rst[name] == 0
        self.rst[name] = lv
        if rising and self.dom[name]["reset"] == "async":
            for (r, p, real, layers) in self.parts:
                if real == name and not self.d["regs"][r]["reset_less"]:
                    n = p["hi"] - p["lo"]
                    init = (self.d["regs"][r]["init"] >> p["lo"]) & mask(n)
                    self.regs[r] = (self.regs[r] & ~(mask(n) << p["lo"])) | (init << p["lo"])


# ---- events & co-simulation --------------------------------------------------------------------------
def gen_events(design, rng, n):
    evs = []
    names = [d["name"] for d in design["domains"]]
    resettable = [d["name"] for d in design["domains"] if d["reset"] != "none"]
    for _ in range(n):
        x = rng.random()
        if x < 0.35:
            ev = ["in", [rng.getrandbits(1) if rng.random() < 0.5 else 1 for _ in range(design["nctrl"])], rng.getrandbits(8)]
            if design["mem"]:
                ev += [rng.randrange(design["mem"]["depth"]), rng.choice([0, 1, 2, 3, 3])]
            evs.append(ev)
        elif x < 0.9 or not resettable:
            if len(names) > 1 and rng.random() < 0.25:
                sel = [nm for nm in names if rng.random() < 0.7] or [rng.choice(names)]
            else:
                sel = [rng.choice(names)]
            evs.append(["clk", sel])       # toggle the level of these clocks, all at once
        else:
            evs.append(["rst", rng.choice(resettable)])      # toggle this reset level
    return evs


def cosim(design, events, out, use_rtlil=True):
    from amaranth.hdl import Cat, Value
    from amaranth.sim import Simulator
    from amaranth.back import rtlil
    viol = out["violations"]

    def V(mech, **kw):
        viol.append({"mechanism": mech, "detail": dict(design=design, **kw)})
    try:
        b = build(design)
        sim = Simulator(b.top)
        ev = None
        if use_rtlil:
            b2 = build(design)
            doc = P.parse(rtlil.convert(b2.top, ports=port_map(b2, design), emit_src=False))
            ev = E.Evaluator(doc)
    except P.ParseError as ex:
        V("rtlil-does-not-parse", error=str(ex)[:300])
        return
    except E.EvalError as ex:
        V("rtlil-evaluator-rejects-document", error=str(ex)[:300])
        return
    except Exception as ex:
        if exc_origin(ex) != "repo":
            raise
        V(f"build-or-convert-exception:{type(ex).__name__}", exception=repr(ex)[:300])
        return
    ref = RegRef(design)
    names = [d["name"] for d in design["domains"]]
    clkcat = Cat(*[b.cds[n].clk for n in names])
    incat = Cat(*b.ctrl, b.din)
    out["extra"]["designs"] += 1

    def ev_set(name, v):
        if ev is not None:
            try:
                ev.set(name, v)
            except E.EvalError:
                pass
    if ev is not None:
        for name in port_map(b, design):
            if not name.startswith("out") and name != "rdata":
                ev_set(name, 0)
        ev.step()

    async def tb(ctx):
        def compare(n):
            for r, (sig, o) in enumerate(zip(b.regs, b.outs)):
                sv = ctx.get(sig)
                mv = ref.regs[r]
                out["evaluations"] += 1
                if design["regs"][r].get("signed"):
                    # (a signed register split between drivers: the value read must lie in the signal's range)
                    if not (-(1 << (len(sig) - 1)) <= sv < (1 << (len(sig) - 1))):
                        V("signed-register-read-outside-its-range", events=events[:n + 1], step=n, register=r, simulator=sv, width=len(sig))
                        return False
                    sv &= mask(len(sig))
                if sv != mv:
                    rg = design["regs"][r]
                    kinds = sorted({("reset-less:" if rg["reset_less"] else "") + ref.dom[real]["reset"] for (rr, p, real, layers) in ref.parts if rr == r})
                    evn = events[n] if n >= 0 else None
                    ek = "initial" if evn is None else evn[0]
                    V(f"register-vs-model:after-{ek}:" + "+".join(kinds), events=events[:n + 1], step=n, register=r,
                      simulator=sv, model=mv, event_kind=("async_rst_rise_without_clk_edge" if (evn and evn[0] == "rst") else ek))
                    return False
                if ev is not None:
                    rv, rx = ev.get(f"out{r}")
                    if rx:
                        out["extra"]["rtlil_undef_bits_skipped"] += bin(rx).count("1")
                    if (rv & ~rx) != (sv & ~rx):
                        V("simulator-vs-rtlil-register", events=events[:n + 1], step=n, register=r, simulator=sv, rtlil=rv, rtlil_undef=rx, model=mv)
                        return False
            if b.mem is not None:
                me = ref.mem
                sv = ctx.get(b.rp.data)
                if me["rdata"] is not None and sv != me["rdata"]:
                    V("memory-read-data-vs-model", events=events[:n + 1], step=n, simulator=sv, model=me["rdata"])
                    return False
                for i in range(design["mem"]["depth"]):
                    rv_ = ctx.get(b.mem.data[i])
                    if rv_ != me["rows"][i]:
                        V("memory-row-vs-model", events=events[:n + 1], step=n, row=i, simulator=rv_, model=me["rows"][i])
                        return False
                if ev is not None and me["rdata"] is not None:
                    rv, rx = ev.get("rdata")
                    if (rv & ~rx) != (sv & ~rx):
                        V("simulator-vs-rtlil-read-data", events=events[:n + 1], step=n, simulator=sv, rtlil=rv, rtlil_undef=rx)
                        return False
            return True
        if not compare(-1):
            return
        for n, e in enumerate(events):
            if e[0] == "in":
                cv = sum(bit << k for k, bit in enumerate(e[1]))
                ctx.set(incat, cv | (e[2] << len(b.ctrl)))
                ref.ctrl = list(e[1])
                ref.din = e[2]
                for k, bit in enumerate(e[1]):
                    ev_set(f"c{k}", bit)
                ev_set("din", e[2])
                if b.mem is not None:
                    ctx.set(b.maddr, e[3])
                    ctx.set(b.men, e[4])
                    ref.mem["addr"], ref.mem["en"] = e[3], e[4]
                    ev_set("maddr", e[3])
                    ev_set("men", e[4])
            elif e[0] == "clk":
                levels = {nm: 1 - ref.clk[nm] for nm in e[1]}
                firing = ref.set_clk(levels)
                if len(firing) > 1:
                    out["extra"]["coincident_active_edges"] += 1
                ctx.set(clkcat, sum(ref.clk[nm] << k for k, nm in enumerate(names)))
                for nm in e[1]:
                    ev_set(f"{nm}_clk", ref.clk[nm])
                if any(ref.rst[nm] for nm in firing):
                    out["extra"]["edges_with_reset_asserted"] += 1
            else:
                nm = e[1]
                lv = 1 - ref.rst[nm]
                ref.set_rst(nm, lv)
                ctx.set(b.cds[nm].rst, lv)
                ev_set(f"{nm}_rst", lv)
                out["extra"]["reset_level_changes"] += 1
            if ev is not None:
                ev.step()
            if not compare(n):
                return
    sim.add_testbench(tb)
    try:
        sim.run()
    except E.EvalError as ex:
        V("rtlil-evaluation-error", error=str(ex)[:300])
    except Exception as ex:
        if exc_origin(ex) != "repo":
            raise
        V(f"simulation-exception:{type(ex).__name__}", events=events, exception=repr(ex)[:300])


def enum_designs():
    """single register x edge x reset kind x reset_less x all wrapper nestings of depth <= 2"""
    ws = [None, ("reset", 0), ("enable", 1)]
    for edge in ("pos", "neg"):
        for rs in ("sync", "async", "none"):
            for rl in (False, True):
                for w1 in ws:
                    for w2 in ws:
                        if w1 is None and w2 is not None:
                            continue
                        wr = [{"kind": k, "dom": "da", "ctrl": c} for (k, c) in (x for x in (w1, w2) if x is not None)]
                        for rename in (False, True):
                            dom = "v0" if rename else "da"
                            wrs = ([{"kind": "rename", "map": {"v0": "da"}}] if rename else [])
                            inner = [dict(w, dom=dom) for w in wr]
                            yield {"domains": [{"name": "da", "edge": edge, "reset": rs}], "tree": [-1, 0],
                                   "wrappers": [wrs, inner], "nctrl": 2,
                                   "regs": [{"w": 2, "init": 2, "reset_less": rl,
                                             "parts": [{"lo": 0, "hi": 2, "mod": 1, "dom": dom, "kind": "inc", "cond": None}]}],
                                   "mem": None}


def enum_events(design):
    letters = [["in", [0, 0], 0], ["in", [1, 0], 0], ["in", [0, 1], 0], ["in", [1, 1], 0], ["clk", ["da"]]]
    if design["domains"][0]["reset"] != "none":
        letters.append(["rst", "da"])
    return letters


def check_shared_source(rng, out):
    """Several wrapped variants derived from ONE source object (a Module, or the Fragment obtained from it): each
    variant obeys only its own control, the source itself stays unwrapped - also after the other variants have been
    built and simulated."""
    from amaranth.hdl import Module, Signal, ClockDomain, Fragment, ResetInserter, EnableInserter
    from amaranth.sim import Simulator
    init = rng.randrange(1, 15)
    src = Module()
    cd = ClockDomain("sync", reset_less=True)
    r = Signal(4, init=init, name="r")
    src.d.sync += r.eq(r + 1)
    as_fragment = rng.random() < 0.6
    source = Fragment.get(src, None) if as_fragment else src
    ctrls = [Signal(name=f"c{k}") for k in range(3)]
    kinds = [rng.choice(["reset", "enable"]) for _ in range(2)]
    variants = [(ResetInserter if k == "reset" else EnableInserter)({"sync": c})(source) for k, c in zip(kinds, ctrls)]
    which = rng.choice([0, 1, 0, 1, "source"])
    dut = source if which == "source" else variants[which]
    top = Module()
    top.domains.sync = cd
    top.submodules.dut = dut
    cfg = {"kind": "variants-of-one-source", "source_is_fragment": as_fragment, "wrappers": kinds, "simulated": which, "init": init}
    out["hist"]["shared-source:" + ("fragment" if as_fragment else "module") + ":" + str(which)] = \
        out["hist"].get("shared-source:" + ("fragment" if as_fragment else "module") + ":" + str(which), 0) + 1
    try:
        sim = Simulator(top)
    except Exception as ex:
        if exc_origin(ex) != "repo":
            raise
        out["violations"].append({"mechanism": f"shared-source-exception:{type(ex).__name__}", "detail": dict(cfg, exception=repr(ex)[:300])})
        return
    bad = []

    async def tb(ctx):
        val = init
        cv = [0, 0, 0]
        for step in range(30):
            if rng.random() < 0.4:
                k = rng.randrange(3)
                cv[k] = 1 - cv[k]
                ctx.set(ctrls[k], cv[k])
            else:
                ctx.set(cd.clk, 1)
                if which == "source":
                    val = (val + 1) & 15
                elif kinds[which] == "reset":
                    val = init if cv[which] else (val + 1) & 15
                else:
                    val = (val + 1) & 15 if cv[which] else val
                ctx.set(cd.clk, 0)
            got = ctx.get(r)
            out["evaluations"] += 1
            if got != val:
                bad.append(dict(step=step, controls=list(cv), register=got, expected=val))
                return
    sim.add_testbench(tb)
    sim.run()
    if bad:
        out["violations"].append({"mechanism": "wrapped-variant-obeys-another-variants-control", "detail": dict(cfg, **bad[0])})
    out["fps"].add(fp(cfg))


def shards(tier, seed):
    n = 960 if tier == "quick" else 12000
    specs = [{"kind": "sample", "seed": seed, "shard": i, "designs": n // NSHARDS, "events": 50 if tier == "quick" else 100,
              "wrappers": 3 if tier == "quick" else 5} for i in range(NSHARDS)]
    for k in range(8):
        specs.append({"kind": "enum", "seed": seed, "part": k, "parts": 8})
    return specs


def new_out():
    return {"evaluations": 0, "fps": set(), "hist": {}, "violations": [], "samples": [], "exhaustive": [],
            "extra": {"designs": 0, "coincident_active_edges": 0, "edges_with_reset_asserted": 0, "reset_level_changes": 0,
                      "rtlil_undef_bits_skipped": 0}}


def run_shard(spec):
    instrument.install_slot_invariant()
    out = new_out()
    if spec["kind"] == "enum":
        for k, design in enumerate(enum_designs()):
            if k % spec["parts"] != spec["part"]:
                continue
            letters = enum_events(design)
            # all 4-event sequences, concatenated per design with a reset of the model by re-building
            for seq in itertools.product(range(len(letters)), repeat=4):
                events = [letters[i] for i in seq]
                if not any(e[0] == "clk" for e in events):
                    continue
                cosim(design, events, out, use_rtlil=False)
                if out["violations"]:
                    break
            out["fps"].add(fp(design))
            if len(out["violations"]) > 20:
                break
        out["exhaustive"].append("one register x {pos,neg} x {sync,async,none} x reset_less x wrapper nestings depth<=2 (+rename) x all 4-event sequences")
    else:
        rng = derive_rng("c03", spec["seed"], spec["shard"])
        for n in range(spec["designs"]):
            design = gen_design(rng, spec["wrappers"])
            if not design["regs"]:
                continue
            events = gen_events(design, rng, spec["events"])
            cosim(design, events, out)
            check_shared_source(rng, out)
            nd = len(design["domains"])
            nw = sum(len(w) for w in design["wrappers"])
            out["hist"][f"domains:{nd}"] = out["hist"].get(f"domains:{nd}", 0) + 1
            out["hist"][f"wrappers:{nw}"] = out["hist"].get(f"wrappers:{nw}", 0) + 1
            for d in design["domains"]:
                key = f"domain:{d['edge']}:{d['reset']}"
                out["hist"][key] = out["hist"].get(key, 0) + 1
            for ws in design["wrappers"]:
                for w in ws:
                    key = "wrapper:" + w["kind"] + (":multi-domain" if "ctl" in w else "")
                    out["hist"][key] = out["hist"].get(key, 0) + 1
            if any(len(rg["parts"]) > 1 for rg in design["regs"]):
                out["hist"]["split-domain-register"] = out["hist"].get("split-domain-register", 0) + 1
            if design["mem"]:
                out["hist"]["memory-in-wrapped-subtree"] = out["hist"].get("memory-in-wrapped-subtree", 0) + 1
            if nw or nd >= 2:
                out["fps"].add(fp(design))
            if len(out["samples"]) < 1 and nw >= 2:
                out["samples"].append({"design": design, "events": events[:5]})
            if len(out["violations"]) > 30:
                break
    out["violations"].extend(instrument.VIOLATIONS)
    instrument.VIOLATIONS.clear()
    out["monitors"] = dict(instrument.COUNTERS)
    out["fps"] = sorted(out["fps"])
    return out


def replay(rec):
    import json
    d = rec["detail"]
    out = new_out()
    cosim(d["design"], d.get("events", []), out)
    print(json.dumps(out["violations"][:2], indent=1, default=str)[:3000])
    print("replay:", "VIOLATION reproduced" if out["violations"] else "no violation on this tree")
    return 1 if out["violations"] else 0
