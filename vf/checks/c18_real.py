"""C18, real I/O ports: Buffer / FFBuffer on IOPort-backed ports converted to RTLIL, read by the
independent reader, structurally checked and evaluated (pad value, loop-back, complement leg)."""
from ..common import exc_origin, fp
from ..rtlil import parse as P, check as K, eval as E


def mask_of(inv):
    return sum(1 << i for i, b in enumerate(inv) if b)


def run(rng, out, n):
    from amaranth.hdl import Module, Signal, IOPort, ClockDomain
    from amaranth.hdl._ir import PortDirection
    from amaranth.back import rtlil
    from amaranth.lib import io
    for _ in range(n):
        w = rng.choice([1, 2, 3, 4])
        inv = tuple(rng.random() < 0.5 for _ in range(w))
        diff = rng.random() < 0.4
        bdir = rng.choice(["i", "o", "io"])
        pdir = rng.choice([bdir, "io"])
        ff = rng.random() < 0.3
        cfg = {"kind": "real-port", "width": w, "invert": list(inv), "differential": diff, "buffer_dir": bdir,
               "port_dir": pdir, "ffbuffer": ff}
        M = mask_of(inv)
        full = (1 << w) - 1
        try:
            if diff:
                pp, pn = IOPort(w, name="pad_p"), IOPort(w, name="pad_n")
                port = io.DifferentialPort(pp, pn, invert=inv, direction=pdir)
                iops = [pp, pn]
            else:
                pp = IOPort(w, name="pad")
                port = io.SingleEndedPort(pp, invert=inv, direction=pdir)
                iops = [pp]
            m = Module()
            cd = ClockDomain("sync")
            m.domains.sync = cd
            buf = io.FFBuffer(bdir, port) if ff else io.Buffer(bdir, port)
            m.submodules.buf = buf
            o, oe, i = Signal(w, name="o"), Signal(name="oe"), Signal(w, name="i")
            ports = {"clk": (cd.clk, PortDirection.Input)}
            if bdir in ("o", "io"):
                m.d.comb += [buf.o.eq(o), buf.oe.eq(oe)]
                ports["o"] = (o, PortDirection.Input)
                ports["oe"] = (oe, PortDirection.Input)
            if bdir in ("i", "io"):
                m.d.comb += i.eq(buf.i)
                ports["i"] = (i, PortDirection.Output)
            for p in iops:
                ports[p.name] = (p, None)
            text = rtlil.convert(m, ports=ports, emit_src=False)
        except Exception as ex:
            if exc_origin(ex) != "repo":
                raise
            out["violations"].append({"mechanism": f"real-port-conversion-exception:{type(ex).__name__}",
                                      "detail": {"config": cfg, "exception": repr(ex)[:300]}})
            continue
        out["evaluations"] += 1
        out["extra"]["netlists_checked"] += 1
        out["hist"]["real-port:" + ("diff" if diff else "single") + ":" + bdir + (":ff" if ff else "")] = \
            out["hist"].get("real-port:" + ("diff" if diff else "single") + ":" + bdir + (":ff" if ff else ""), 0) + 1

        def bad(mech, **kw):
            out["violations"].append({"mechanism": "real-port-" + mech, "detail": dict(config=cfg, **kw)})
        try:
            doc = P.parse(text)
        except P.ParseError as ex:
            bad("rtlil-does-not-parse", error=str(ex)[:200])
            continue
        errs = K.check(doc, io_wires=tuple("\\" + p.name for p in iops))
        if errs:
            bad("structure:" + errs[0][0], message=errs[0][1])
            continue
        # every pad bit is used by exactly one buffer element per direction, anywhere in the hierarchy
        pad_names = {"\\" + p.name for p in iops}
        uses_out, uses_in = {}, {}
        for mod in doc.modules.values():
            # the pad wires inside submodules are the inout/in/out ports named ioport$...; follow only the leaf users
            for c in mod.cells.values():
                if c.type == "$tribuf":
                    for b in c.conns["Y"]:
                        if b[0] == "w":
                            uses_out[(mod.name, b[1], b[2])] = uses_out.get((mod.name, b[1], b[2]), 0) + 1
        top = doc.top()
        for p in iops:
            wname = "\\" + p.name
            if wname not in top.wires:
                bad("pad-missing", pad=p.name)
                break
            exp_kind = {"i": "input", "o": "output", "io": "inout"}[bdir]
            if diff and p is iops[1] and bdir in ("i",):
                pass
            if top.wires[wname].width != w:
                bad("pad-width", pad=p.name, got=top.wires[wname].width)
        # behaviour
        try:
            ev = E.Evaluator(doc)
        except E.EvalError as ex:
            bad("evaluator-rejects", error=str(ex)[:200])
            continue

        def clock():
            ev.set("clk", 1)
            ev.step()
            ev.set("clk", 0)
            ev.step()
        ev.set("clk", 0)
        try:
            for rep in range(6):
                ov, oev, pad_ext = rng.getrandbits(w), rng.getrandbits(1), rng.getrandbits(w)
                if bdir in ("o", "io"):
                    ev.set("o", ov)
                    ev.set("oe", oev)
                pname = iops[0].name
                if bdir in ("i", "io"):
                    ev.set(pname, pad_ext)
                    if diff and bdir == "io":
                        pass
                ev.step()
                if ff:
                    clock()
                    if bdir == "io":
                        clock()     # second edge: the input register samples the looped-back pad
                if bdir in ("o", "io") and oev:
                    pv, px = ev.get(pname)
                    if px or pv != (ov ^ M):
                        bad("pad-value", o=ov, pad=pv, undef=px, expected=ov ^ M)
                        break
                    if diff:
                        nv, nx = ev.get(iops[1].name)
                        if nx or nv != ((ov ^ M) ^ full):
                            bad("negative-leg-not-complement", o=ov, pad_n=nv, undef=nx, expected=(ov ^ M) ^ full)
                            break
                if bdir in ("i", "io"):
                    iv, ix = ev.get("i")
                    exp = ov if (bdir == "io" and oev) else (pad_ext ^ M)
                    if ix or iv != exp:
                        bad("fabric-input-value", i=iv, undef=ix, expected=exp, pad=pad_ext, o=ov, oe=oev)
                        break
        except E.EvalError as ex:
            bad("evaluation-error", error=str(ex)[:200])
            continue
        out["fps"].add(fp(cfg))
