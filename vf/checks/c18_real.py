"""C18, real I/O ports: Buffer / FFBuffer on IOPort-backed ports converted to RTLIL, read by the
independent reader, structurally checked and evaluated (pad value, loop-back, complement leg)."""
from ..common import exc_origin, fp
from ..rtlil import parse as P, check as K, eval as E


def mask_of(inv):
    return sum(1 << i for i, b in enumerate(inv) if b)


def run(rng, out, n):
    from amaranth.hdl import Module, Signal, IOPort, ClockDomain, ResetInserter, EnableInserter, DomainRenamer
    from amaranth.hdl._ir import PortDirection
    from amaranth.back import rtlil
    from amaranth.lib import io
    for _ in range(n):
        w = rng.choice([1, 2, 3, 4])
        inv = tuple(rng.random() < 0.5 for _ in range(w))
        diff = rng.random() < 0.4
        bdir = rng.choice(["i", "o", "io"])
        pdir = rng.choice([bdir, "io"])
        ff = rng.random() < 0.3
        wrapper = rng.choice([None, None, "reset", "enable", "rename"])
        oe_mode = rng.choice(["port", "port", "const0", "const1"])
        cfg = {"kind": "real-port", "width": w, "invert": list(inv), "differential": diff, "buffer_dir": bdir,
               "port_dir": pdir, "ffbuffer": ff, "buffer_under": wrapper, "output_enable": oe_mode}
        M = mask_of(inv)
        full = (1 << w) - 1
        try:
            if diff:
                pp, pn = IOPort(w, name="pad_p"), IOPort(w, name="pad_n")
                port = io.DifferentialPort(pp, pn, invert=inv, direction=pdir)
                iops = [pp, pn]
            else:
                pp = IOPort(w, name="pad")
                port = io.SingleEndedPort(pp, invert=inv, direction=pdir)
                iops = [pp]
            m = Module()
            cd = ClockDomain("sync")
            m.domains.sync = cd
            buf = io.FFBuffer(bdir, port) if ff else io.Buffer(bdir, port)
            # the buffer may sit under a control inserter held inactive (reset 0 / enable 1) or a no-op renamer:
            # the transformed copy of the design has to contain the same buffers
            hold = Signal(name="hold")
            m.submodules.buf = {None: lambda x: x, "reset": lambda x: ResetInserter(hold)(x), "enable": lambda x: EnableInserter(~hold)(x),
                                "rename": lambda x: DomainRenamer({"nowhere": "sync"})(x)}[wrapper](buf)
            o, oe, i = Signal(w, name="o"), Signal(name="oe"), Signal(w, name="i")
            ports = {"clk": (cd.clk, PortDirection.Input), "hold": (hold, PortDirection.Input)}
            if bdir in ("o", "io"):
                m.d.comb += buf.o.eq(o)
                ports["o"] = (o, PortDirection.Input)
                if oe_mode == "port":
                    m.d.comb += buf.oe.eq(oe)
                    ports["oe"] = (oe, PortDirection.Input)
                else:
                    m.d.comb += buf.oe.eq(1 if oe_mode == "const1" else 0)      # the enable tied off in the design
            if bdir in ("i", "io"):
                m.d.comb += i.eq(buf.i)
                ports["i"] = (i, PortDirection.Output)
            for p in iops:
                ports[p.name] = (p, None)
            text = rtlil.convert(m, ports=ports, emit_src=False)
        except Exception as ex:
            if exc_origin(ex) != "repo":
                raise
            out["violations"].append({"mechanism": f"real-port-conversion-exception:{type(ex).__name__}",
                                      "detail": {"config": cfg, "exception": repr(ex)[:300]}})
            continue
        out["evaluations"] += 1
        out["extra"]["netlists_checked"] += 1
        out["hist"]["real-port:" + ("diff" if diff else "single") + ":" + bdir + (":ff" if ff else "")] = \
            out["hist"].get("real-port:" + ("diff" if diff else "single") + ":" + bdir + (":ff" if ff else ""), 0) + 1

        def bad(mech, **kw):
            out["violations"].append({"mechanism": "real-port-" + mech, "detail": dict(config=cfg, **kw)})
        try:
            doc = P.parse(text)
        except P.ParseError as ex:
            bad("rtlil-does-not-parse", error=str(ex)[:200])
            continue
        errs = K.check(doc, io_wires=tuple("\\" + p.name for p in iops))
        if errs:
            bad("structure:" + errs[0][0], message=errs[0][1])
            continue
        # every pad bit is used by exactly one buffer element per direction, anywhere in the hierarchy
        pad_names = {"\\" + p.name for p in iops}
        uses_out, uses_in = {}, {}
        for mod in doc.modules.values():
            # the pad wires inside submodules are the inout/in/out ports named ioport$...; follow only the leaf users
            for c in mod.cells.values():
                if c.type == "$tribuf":
                    for b in c.conns["Y"]:
                        if b[0] == "w":
                            uses_out[(mod.name, b[1], b[2])] = uses_out.get((mod.name, b[1], b[2]), 0) + 1
        top = doc.top()
        for p in iops:
            wname = "\\" + p.name
            if wname not in top.wires:
                bad("pad-missing", pad=p.name)
                break
            exp_kind = {"i": "input", "o": "output", "io": "inout"}[bdir]
            if diff and p is iops[1] and bdir in ("i",):
                pass
            if top.wires[wname].width != w:
                bad("pad-width", pad=p.name, got=top.wires[wname].width)
        # behaviour
        try:
            ev = E.Evaluator(doc)
        except E.EvalError as ex:
            bad("evaluator-rejects", error=str(ex)[:200])
            continue

        def clock():
            ev.set("clk", 1)
            ev.step()
            ev.set("clk", 0)
            ev.step()
        ev.set("clk", 0)
        try:
            ev.set("hold", 0)
        except E.EvalError:
            pass
        if wrapper:
            out["hist"]["real-port-buffer-under:" + wrapper] = out["hist"].get("real-port-buffer-under:" + wrapper, 0) + 1
        try:
            for rep in range(6):
                ov, oev, pad_ext = rng.getrandbits(w), rng.getrandbits(1), rng.getrandbits(w)
                if oe_mode != "port":
                    oev = 1 if oe_mode == "const1" else 0
                if bdir in ("o", "io"):
                    ev.set("o", ov)
                    if oe_mode == "port":
                        ev.set("oe", oev)
                pname = iops[0].name
                if bdir in ("i", "io"):
                    ev.set(pname, pad_ext)
                    if diff and bdir == "io":
                        pass
                ev.step()
                if ff:
                    clock()
                    if bdir == "io":
                        clock()     # second edge: the input register samples the looped-back pad
                if bdir == "o" and not oev:
                    pv, px = ev.get(pname)
                    if px != full:
                        bad("pad-driven-while-output-disabled", o=ov, pad=pv, defined_bits=full & ~px)
                        break
                if bdir in ("o", "io") and oev:
                    pv, px = ev.get(pname)
                    if px or pv != (ov ^ M):
                        bad("pad-value", o=ov, pad=pv, undef=px, expected=ov ^ M)
                        break
                    if diff:
                        nv, nx = ev.get(iops[1].name)
                        if nx or nv != ((ov ^ M) ^ full):
                            bad("negative-leg-not-complement", o=ov, pad_n=nv, undef=nx, expected=(ov ^ M) ^ full)
                            break
                if bdir in ("i", "io"):
                    iv, ix = ev.get("i")
                    exp = ov if (bdir == "io" and oev) else (pad_ext ^ M)
                    if ix or iv != exp:
                        bad("fabric-input-value", i=iv, undef=ix, expected=exp, pad=pad_ext, o=ov, oe=oev)
                        break
        except E.EvalError as ex:
            bad("evaluation-error", error=str(ex)[:200])
            continue
        out["fps"].add(fp(cfg))


def run_composite(rng, out, n):
    """Buffers on ports composed from slices of several IOPorts (slicing, `+`, `~`), with the buffer as a
    sub-module or as the top-level design itself.  Every pad bit must be used by exactly one buffer cell bit (an
    expression that lists a pad bit twice must be refused), the pad bit named by the composition must carry
    o XOR inversion, and the fabric input must read that pad bit XOR inversion; pad bits outside the composition
    stay untouched."""
    from amaranth.hdl import Module, Signal, IOPort, DriverConflict
    from amaranth.hdl._ir import PortDirection
    from amaranth.back import rtlil
    from amaranth.lib import io
    for _ in range(n):
        nio = rng.randrange(1, 4)
        widths = [rng.randrange(1, 5) for _ in range(nio)]
        overlap = rng.random() < 0.15
        parts, used = [], set()
        for _k in range(rng.randrange(1, 4)):
            for _try in range(8):
                p = rng.randrange(nio)
                # slices that continue the bit numbering of the previous part are of particular interest
                lo = parts[-1][2] if parts and rng.random() < 0.5 and parts[-1][2] < widths[p] else rng.randrange(widths[p])
                hi = rng.randrange(lo + 1, widths[p] + 1)
                bits = {(p, b) for b in range(lo, hi)}
                if overlap or not (bits & used):
                    parts.append([p, lo, hi, rng.random() < 0.4])
                    used |= bits
                    break
        if not parts:
            continue
        listing = [(p, b, inv) for (p, lo, hi, inv) in parts for b in range(lo, hi)]
        twice = len({(p, b) for p, b, _ in listing}) != len(listing)
        bdir = rng.choice(["i", "o", "io"])
        as_top = rng.random() < 0.5
        cfg = {"kind": "composite-real-port", "io_widths": widths, "parts": parts, "buffer_dir": bdir, "buffer_is_top": as_top}
        w = len(listing)
        try:
            iops = [IOPort(wd, name=f"pad{k}") for k, wd in enumerate(widths)]
            port = None
            for (p, lo, hi, inv) in parts:
                piece = io.SingleEndedPort(iops[p], direction="io")[lo:hi]
                if inv:
                    piece = ~piece
                port = piece if port is None else port + piece
            buf = io.Buffer(bdir, port)
            ports = {}
            if as_top:
                top = buf
                if bdir in ("o", "io"):
                    ports["o"], ports["oe"] = (buf.o, PortDirection.Input), (buf.oe, PortDirection.Input)
                if bdir in ("i", "io"):
                    ports["i"] = (buf.i, PortDirection.Output)
            else:
                top = Module()
                top.submodules.buf = buf
                o, oe, i = Signal(w, name="o"), Signal(name="oe"), Signal(w, name="i")
                if bdir in ("o", "io"):
                    top.d.comb += [buf.o.eq(o), buf.oe.eq(oe)]
                    ports["o"], ports["oe"] = (o, PortDirection.Input), (oe, PortDirection.Input)
                if bdir in ("i", "io"):
                    top.d.comb += i.eq(buf.i)
                    ports["i"] = (i, PortDirection.Output)
            usedp = sorted({p for p, _, _ in listing})
            for p in usedp:
                ports[iops[p].name] = (iops[p], None)
            try:
                text = rtlil.convert(top, ports=ports, emit_src=False)
                refused = False
            except DriverConflict:
                refused = True
        except Exception as ex:
            if exc_origin(ex) != "repo":
                raise
            out["violations"].append({"mechanism": f"real-port-conversion-exception:{type(ex).__name__}",
                                      "detail": {"config": cfg, "exception": repr(ex)[:300]}})
            continue
        out["evaluations"] += 1
        hk = "composite-real-port:" + bdir + (":top" if as_top else ":sub") + (":pad-bit-listed-twice" if twice else "")
        out["hist"][hk] = out["hist"].get(hk, 0) + 1

        def bad(mech, **kw):
            out["violations"].append({"mechanism": "real-port-" + mech, "detail": dict(config=cfg, **kw)})
        if refused:
            if not twice:
                bad("legal-composite-port-refused")
            continue
        out["extra"]["netlists_checked"] += 1
        try:
            doc = P.parse(text)
        except P.ParseError as ex:
            bad("rtlil-does-not-parse", error=str(ex)[:200])
            continue
        errs = K.check(doc, io_wires=tuple("\\" + iops[p].name for p in usedp))
        if errs:
            bad("structure:" + errs[0][0], message=errs[0][1])
            continue
        # every pad bit of the top module is used by at most one buffer cell bit
        topm = doc.top()
        padw = {"\\" + iops[p].name for p in usedp}
        uses = {}
        for mod in doc.modules.values():
            for c in mod.cells.values():
                if c.type == "$tribuf":
                    for b in c.conns["Y"]:
                        if b[0] == "w":
                            uses[(mod.name, b[1], b[2])] = uses.get((mod.name, b[1], b[2]), 0) + 1
        dup = sorted(k for k, v in uses.items() if v > 1)
        if dup or twice:
            bad("pad-bit-used-by-two-buffer-bits", uses=[list(map(str, d)) for d in dup[:4]], listed_twice_in_expression=twice)
            continue
        try:
            ev = E.Evaluator(doc)
        except E.EvalError as ex:
            bad("evaluator-rejects", error=str(ex)[:200])
            continue
        try:
            for rep in range(6):
                ov, oev = rng.getrandbits(w), rng.getrandbits(1)
                ext = [rng.getrandbits(wd) for wd in widths]
                if bdir in ("o", "io"):
                    ev.set("o", ov)
                    ev.set("oe", oev)
                if bdir in ("i", "io"):
                    for p in usedp:
                        ev.set(iops[p].name, ext[p])
                ev.step()
                stop = False
                if bdir in ("o", "io"):
                    for p in usedp:
                        pv, px = ev.get(iops[p].name)
                        for k, (pp, b, inv) in enumerate(listing):
                            if pp != p or not oev:
                                continue
                            exp = ((ov >> k) & 1) ^ int(inv)
                            if (px >> b) & 1 or (pv >> b) & 1 != exp:
                                bad("composite-pad-bit-value", pad=iops[p].name, bit=b, buffer_bit=k, got=(pv >> b) & 1,
                                    undefined=(px >> b) & 1, expected=exp, o=ov)
                                stop = True
                                break
                        if stop:
                            break
                        if bdir == "o":
                            # pad bits outside the composition are not driven by anything
                            inside = {b for (pp, b, _) in listing if pp == p}
                            for b in range(widths[p]):
                                if b not in inside and not (px >> b) & 1:
                                    bad("pad-bit-outside-the-port-is-driven", pad=iops[p].name, bit=b, value=(pv >> b) & 1)
                                    stop = True
                                    break
                        if stop:
                            break
                if stop:
                    break
                if bdir in ("i", "io"):
                    iv, ix = ev.get("i")
                    for k, (p, b, inv) in enumerate(listing):
                        exp = (ov >> k) & 1 if (bdir == "io" and oev) else ((ext[p] >> b) & 1) ^ int(inv)
                        if (ix >> k) & 1 or (iv >> k) & 1 != exp:
                            bad("composite-fabric-input-bit", buffer_bit=k, pad=iops[p].name, bit=b, got=(iv >> k) & 1,
                                undefined=(ix >> k) & 1, expected=exp, pad_value=ext[p], o=ov, oe=oev)
                            stop = True
                            break
                if stop:
                    break
        except E.EvalError as ex:
            bad("evaluation-error", error=str(ex)[:200])
            continue
        out["fps"].add(fp(cfg))


def run_crossfeed(rng, out, n):
    """A bidirectional buffer on a real port whose fabric side routes the input of one wire to the output of a
    *different* wire (a chain): no bit reaches itself, so the design converts, and every pad bit
    is used by exactly one buffer cell bit."""
    from amaranth.hdl import Module, Signal, IOPort, Cat
    from amaranth.hdl._ir import PortDirection
    from amaranth.back import rtlil
    from amaranth.lib import io
    for _ in range(n):
        w = rng.randrange(2, 6)
        inv = tuple(rng.random() < 0.5 for _ in range(w))
        cfg = {"kind": "real-port-crossfeed", "width": w, "invert": list(inv), "chain": "o[k+1] = i[k], o[0] = src"}
        pad = IOPort(w, name="pad")
        m = Module()
        buf = io.Buffer("io", io.SingleEndedPort(pad, invert=inv, direction="io"))
        m.submodules.buf = buf
        oe, src = Signal(name="oe"), Signal(name="src")
        m.d.comb += [buf.o.eq(Cat(src, buf.i[:-1])), buf.oe.eq(oe)]       # a chain: wire k feeds wire k+1, no bit reaches itself
        out["evaluations"] += 1
        out["hist"]["real-port-crossfeed"] = out["hist"].get("real-port-crossfeed", 0) + 1
        try:
            text = rtlil.convert(m, ports={"oe": (oe, PortDirection.Input), "src": (src, PortDirection.Input), "pad": (pad, None)}, emit_src=False)
            doc = P.parse(text)
        except Exception as ex:
            if exc_origin(ex) != "repo" and not isinstance(ex, P.ParseError):
                raise
            out["violations"].append({"mechanism": f"real-port-loop-free-crossfeed-refused:{type(ex).__name__}",
                                      "detail": dict(config=cfg, exception=repr(ex)[:200])})
            continue
        uses = {}
        for mod in doc.modules.values():
            for c in mod.cells.values():
                if c.type == "$tribuf":
                    for b in c.conns["Y"]:
                        if b[0] == "w":
                            uses[(mod.name, b[1], b[2])] = uses.get((mod.name, b[1], b[2]), 0) + 1
        if sorted(uses.values()) != [1] * w:
            out["violations"].append({"mechanism": "real-port-pad-bits-not-used-exactly-once", "detail": dict(config=cfg, uses=len(uses))})
        out["fps"].add(fp(cfg))
