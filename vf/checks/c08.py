"""C08 Simulation results do not depend on process scheduling order."""
import random

from .. import instrument
from ..common import derive_rng, fp, exc_origin

PROPERTY = "C08"
LEVEL = "exploration"
RULE = ("random designs with 1-3 clock domains (add_clock with even-femtosecond periods from {2, 10, 14, "
        "1000, 83333334, 1000000} fs and phases incl. > period), per-domain registers, cross-domain reads, "
        "a 3-level combinational chain through nested submodules, an optional memory with two write "
        "ports in two domains and a comb read port, user processes written as the simulator guide "
        "prescribes (a changed()-driven comb process, a tick().sample() sync process, two sync "
        "processes owning disjoint slices of one signal) and three testbenches with random scripts "
        "over {set, get, tick, tick().sample, tick().repeat, delay, posedge/negedge, elapsed_time}; "
        "every case is run under the natural order, a canonical order and P=8/24 seeded permutations "
        "of the ready-process, active-trigger and pending-commit sets (fresh permutation at every "
        "iteration): all observation traces and final states must be identical. In every run: "
        "elapsed_time at every wake-up equals the timing model (first toggle at phase, then every half "
        "period; delays exact), testbench side effects appear in add order, a set() is visible "
        "through the comb chain and the comb process immediately, tick() resumes on post-edge "
        "registers while sampled values are pre-edge; and circuit vs equivalent-process replacements "
        "(comb adder, sync counter with enable and sync/async reset) give identical traces. "
        "distinct/non-trivial = distinct cases with >= 2 ready processes in some delta cycle.")
ASSUMPTIONS = ["odd-femtosecond periods and phase 0 are not generated; a delay never lands exactly on a clock toggle instant of a domain the testbench ticks on next",
               "user processes read signals only through trigger samples and drive only their own bits (as the simulator guide requires)",
               "changed() is used in a testbench only on a signal that is set once per instant by another testbench (glitch-free)"]
REQUIRED_MONITORS = ["perm_multi", "timeline_advance"]
MIN_NONTRIVIAL = {"quick": 150, "thorough": 1500}
NSHARDS = 16
PERIODS = [2, 10, 14, 1000, 83333334, 1000000]


# ---- case generation --------------------------------------------------------------------------------
def gen_case(rng):
    ndom = rng.choice([1, 2, 2, 3])
    doms = []
    base = rng.choice(PERIODS)
    for k in range(ndom):
        period = base * rng.choice([1, 1, 2, 3, 5])     # same time scale: bounded number of toggles per run
        phase = rng.choice([None, None, 1, period // 2 + 1, period + 3, 3 * period])
        doms.append({"name": f"d{k}", "period": period, "phase": phase, "edge": rng.choice(["pos", "pos", "neg"])})
    case = {"doms": doms, "mem": ndom >= 2 and rng.random() < 0.5, "packed": rng.random() < 0.6,
            "comb_proc": rng.random() < 0.7, "sync_proc": rng.random() < 0.7}
    # scripts
    t = 0
    script = []
    horizon = 0
    for _ in range(rng.randrange(8, 25)):
        x = rng.random()
        if x < 0.3:
            script.append(["set", rng.randrange(ndom), rng.getrandbits(4)])
        elif x < 0.55:
            script.append(["tick", rng.randrange(ndom)])
        elif x < 0.65:
            script.append(["tickn", rng.randrange(ndom), rng.randrange(1, 4)])
        elif x < 0.75:
            script.append(["sample", rng.randrange(ndom)])
        elif x < 0.9 and base > 2:
            # (with a 2 fs period every instant is a toggle instant: no delays in the main script then)
            script.append(["delay", rng.choice([1, 3, 7, base // 2 + 1, base + 1, 5 * base + 3])])
        else:
            script.append([rng.choice(["posedge", "negedge"]), rng.randrange(ndom)])
    if case["mem"]:
        # direct writes of two rows in one ctx.set; often only the first of them changes
        for _ in range(rng.randrange(1, 5)):
            i, j = rng.sample(range(4), 2)
            script.insert(rng.randrange(len(script) + 1), ["poke2", i, j, rng.getrandbits(8), rng.random() < 0.6])
    case["script"] = script
    case["delays2"] = [rng.choice([1, 2, 5, base, 3 * base + 1, 7 * base]) for _ in range(rng.randrange(3, 10))]
    return case


def phase_of(d):
    return d["period"] // 2 if d["phase"] is None else d["phase"]


def toggle_times_after(d, t, strictly=True):
    """First toggle instant of domain d's clock after time t; toggles at phase + k*half, the k-th toggle
    rises for even k (the clock starts low)."""
    half = d["period"] // 2
    ph = phase_of(d)
    if t < ph:
        k = 0
    else:
        k = (t - ph) // half + 1
    return ph + k * half, k


def next_edge(d, t, rising):
    tt, k = toggle_times_after(d, t)
    while (k % 2 == 0) != rising:
        k += 1
    return phase_of(d) + k * (d["period"] // 2)


def next_active(d, t):
    return next_edge(d, t, d["edge"] == "pos")


def is_toggle_instant(d, t):
    half = d["period"] // 2
    ph = phase_of(d)
    return t >= ph and (t - ph) % half == 0


# ---- build & run ---------------------------------------------------------------------------------------
def rngless_init(case):
    return -3 if len(case["script"]) % 2 else 2


def build(case):
    from amaranth.hdl import Module, Signal, ClockDomain, Cat, Const, signed
    from amaranth.lib.memory import Memory
    m = Module()
    b = type("B", (), {})()
    b.cds = []
    b.inp, b.ctr, b.cap = [], [], []
    nd = len(case["doms"])
    for k, d in enumerate(case["doms"]):
        cd = ClockDomain(d["name"], clk_edge=d["edge"])
        setattr(m.domains, d["name"], cd)
        b.cds.append(cd)
        b.inp.append(Signal(4, name=f"inp{k}"))
        b.ctr.append(Signal(8, name=f"ctr{k}", init=k))
        b.cap.append(Signal(8, name=f"cap{k}"))
    for k, d in enumerate(case["doms"]):
        m.d[d["name"]] += b.ctr[k].eq(b.ctr[k] + b.inp[k] + 1)
        m.d[d["name"]] += b.cap[k].eq(b.ctr[(k + 1) % nd])          # cross-domain read
    # 3-level comb chain through nested submodules
    s1, s2 = Module(), Module()
    m.submodules.s1 = s1
    s1.submodules.s2 = s2
    b.l1, b.l2, b.l3 = Signal(8, name="l1"), Signal(8, name="l2"), Signal(8, name="l3")
    s2.d.comb += b.l1.eq(b.inp[0] + 1)
    s1.d.comb += b.l2.eq(b.l1 ^ 5)
    m.d.comb += b.l3.eq(b.l2 + 2)
    b.xr = Signal(8, name="xr")
    m.d.comb += b.xr.eq(b.ctr[0] ^ b.ctr[-1] ^ b.cap[0])
    # process-driven signals (undriven in the design, consumed by it)
    b.p1_o, b.p2_o, b.packed = Signal(8, name="p1_o"), Signal(8, name="p2_o"), Signal(8, name="packed")
    b.z = Signal(8, name="z")
    m.d.comb += b.z.eq(b.p1_o ^ b.p2_o ^ b.packed)
    b.zreg = Signal(8, name="zreg")
    m.d[case["doms"][0]["name"]] += b.zreg.eq(b.z)
    b.mem = None
    if case["mem"]:
        mem = Memory(shape=8, depth=4, init=[1, 2, 3, 4])
        m.submodules.mem = mem
        w0 = mem.write_port(domain="d0")
        w1 = mem.write_port(domain="d1")
        rp = mem.read_port(domain="comb")
        # the two ports own disjoint rows (same-instant writes of one row from two ports are unspecified)
        m.d.comb += [w0.addr.eq(Cat(b.ctr[0][0], Const(0, 1))), w0.data.eq(b.ctr[0]), w0.en.eq(b.inp[0][0]),
                     w1.addr.eq(Cat(b.ctr[1][2], Const(1, 1))), w1.data.eq(b.ctr[1]), w1.en.eq(b.inp[1][0]),
                     rp.addr.eq(b.ctr[0][1:3])]
        b.mem, b.rp = mem, rp
    # a signed signal whose sign bit and low bits are driven from different fragments / domains
    b.ssig = Signal(signed(4), name="ssig", init=rngless_init(case))
    s2.d.comb += b.ssig[0:2].eq(b.inp[0][:2])
    s1.d[case["doms"][-1]["name"]] += b.ssig[2].eq(b.ctr[-1][0])
    m.d[case["doms"][0]["name"]] += b.ssig[3].eq(~b.ssig[3])
    b.flag = Signal(16, name="flag")
    b.flag2 = Signal(16, name="flag2")
    b.m = m
    b.observed = b.ctr + b.cap + [b.l3, b.xr, b.p1_o, b.p2_o, b.packed, b.z, b.zreg, b.ssig] + ([b.rp.data] if b.mem else [])
    return b


class TimingViolation(Exception):
    pass


def run_case(case, order, out=None):
    """order: None (natural) | ('identity', 0) | ('perm', seed).  -> (trace, final, facts)"""
    from amaranth.hdl import Period, Cat
    from amaranth.sim import Simulator
    b = build(case)
    sim = Simulator(b.m)
    doms = case["doms"]
    for k, d in enumerate(doms):
        kw = {}
        if d["phase"] is not None:
            kw["phase"] = Period(fs=d["phase"])
        sim.add_clock(Period(fs=d["period"]), domain=d["name"], **kw)
    d0 = doms[0]["name"]
    # user processes (before injecting the schedule: they are members of the ready set)
    if case["comb_proc"]:
        async def p1(ctx):
            async for c_v, i_v in ctx.changed(b.ctr[0], b.inp[0]):
                ctx.set(b.p1_o, (c_v + i_v) & 0xff)
        sim.add_process(p1)
    if case["sync_proc"]:
        async def p2(ctx):
            async for clk_edge, rst_v, c_v in ctx.tick(d0).sample(b.ctr[0]):
                if clk_edge:
                    ctx.set(b.p2_o, c_v)
        sim.add_process(p2)
    if case["packed"]:
        async def p3(ctx):
            lo = 0
            async for clk_edge, rst_v, i_v in ctx.tick(d0).sample(b.inp[0]):
                if clk_edge:
                    lo = (lo + 1 + i_v) & 15
                    ctx.set(b.packed[0:4], lo)

        async def p4(ctx):
            hi = 0
            async for clk_edge, rst_v, i_v in ctx.tick(d0).sample(b.inp[0]):
                if clk_edge:
                    hi = (hi + 3) & 15
                    ctx.set(b.packed[4:8], hi)
        sim.add_process(p3)
        sim.add_process(p4)
    trace = []
    facts = {"time": 0, "settle": 0, "tick": 0, "order": 0}
    problems = []

    def snap(ctx):
        vals = [ctx.get(s) for s in b.observed]
        if b.mem is not None:
            vals += [ctx.get(b.mem.data[i]) for i in range(4)]
        return vals

    def fs(ctx):
        return ctx.elapsed_time().femtoseconds

    async def tb_main(ctx):
        t = 0
        inp0 = 0
        for n, op in enumerate(case["script"]):
            kind = op[0]
            if kind == "set":
                ctx.set(b.inp[op[1]], op[2])
                if op[1] == 0:
                    inp0 = op[2]
                    # a write returns only after all combinational consequences have settled
                    facts["settle"] += 1
                    exp = ((((op[2] + 1) & 0xff) ^ 5) + 2) & 0xff
                    if ctx.get(b.l3) != exp:
                        problems.append(("set-returned-before-comb-settled", dict(step=n, l3=ctx.get(b.l3), expected=exp)))
                    if case["comb_proc"] and ctx.get(b.p1_o) != (ctx.get(b.ctr[0]) + op[2]) & 0xff:
                        problems.append(("set-returned-before-comb-process-settled", dict(step=n, p1_o=ctx.get(b.p1_o), ctr=ctx.get(b.ctr[0]), inp=op[2])))
            elif kind == "poke2":
                _, i, j, v, keep_second = op
                second = ctx.get(b.mem.data[j]) if keep_second else (v ^ 0x5a)
                ctx.set(Cat(b.mem.data[i], b.mem.data[j]), v | (second << 8))
                facts["settle"] += 1
            elif kind == "tick":
                d = doms[op[1]]
                await ctx.tick(d["name"])
                t = next_active(d, t)
            elif kind == "tickn":
                d = doms[op[1]]
                await ctx.tick(d["name"]).repeat(op[2])
                for _ in range(op[2]):
                    t = next_active(d, t)
            elif kind == "sample":
                d = doms[op[1]]
                pre = ctx.get(b.ctr[op[1]])
                pre_in = ctx.get(b.inp[op[1]])
                clk_hit, rst_v, s = await ctx.tick(d["name"]).sample(b.ctr[op[1]])
                t = next_active(d, t)
                facts["tick"] += 1
                if s != pre:
                    problems.append(("tick-sample-not-pre-edge", dict(step=n, sampled=s, before_edge=pre)))
                post = ctx.get(b.ctr[op[1]])
                if post != (pre + pre_in + 1) & 0xff:
                    problems.append(("tick-resumed-before-registers-updated", dict(step=n, register=post, expected=(pre + pre_in + 1) & 0xff)))
            elif kind == "delay":
                dl = op[1]
                # never land exactly on a toggle instant (the order of wake-up and edge is then not pinned down)
                for _ in range(8):
                    if not any(is_toggle_instant(d, t + dl) for d in doms):
                        break
                    dl += 1
                await ctx.delay(Period(fs=dl))
                t += dl
            else:
                d = doms[op[1]]
                if kind == "posedge":
                    await ctx.posedge(b.cds[op[1]].clk)
                    t = next_edge(d, t, True)
                else:
                    await ctx.negedge(b.cds[op[1]].clk)
                    t = next_edge(d, t, False)
            facts["time"] += 1
            if fs(ctx) != t:
                problems.append(("wake-up-time", dict(step=n, op=op, elapsed_fs=fs(ctx), model_fs=t)))
                return
            if b.mem is not None:
                # the combinational read port always shows the addressed row (all consequences of a
                # write or an edge have settled when the testbench runs)
                a = ctx.get(b.rp.addr)
                if ctx.get(b.rp.data) != ctx.get(b.mem.data[a]):
                    problems.append(("comb-read-port-stale-after-testbench-step", dict(step=n, op=op, read_data=ctx.get(b.rp.data),
                                                                                        row=ctx.get(b.mem.data[a]), addr=a)))
                    return
            trace.append(["main", n, fs(ctx)] + snap(ctx))

    async def tb_flag_writer(ctx):
        k = 0
        while True:
            await ctx.tick(d0)
            k += 1
            ctx.set(b.flag, k)

    async def tb_flag_relay(ctx):
        # added between writer and reader; woken (by the writer's set) while the pass over the
        # testbenches is already under way: it still runs before the later-added reader
        while True:
            await ctx.changed(b.flag)
            ctx.set(b.flag2, ctx.get(b.flag) + 100)

    async def tb_flag_reader(ctx):
        k = 0
        while True:
            await ctx.tick(d0)
            k += 1
            facts["order"] += 1
            # testbenches run in the order in which they were added: the writer's update of this
            # instant is already visible
            v = ctx.get(b.flag)
            if v != k:
                problems.append(("testbench-order", dict(tick=k, flag=v)))
            v2 = ctx.get(b.flag2)
            if v2 != k + 100:
                problems.append(("testbench-order:woken-mid-pass", dict(tick=k, flag2=v2, expected=k + 100)))
            trace.append(["reader", k, fs(ctx), v, v2])

    async def tb_delays(ctx):
        t = 0
        for n, dl in enumerate(case["delays2"]):
            await ctx.delay(Period(fs=dl))
            t += dl
            facts["time"] += 1
            if fs(ctx) != t:
                problems.append(("delay-expiry-time", dict(step=n, elapsed_fs=fs(ctx), model_fs=t)))
                return
            trace.append(["delays", n, fs(ctx)])
    sim.add_testbench(tb_main)
    sim.add_testbench(tb_flag_writer, background=True)
    sim.add_testbench(tb_flag_relay, background=True)
    sim.add_testbench(tb_flag_reader, background=True)
    sim.add_testbench(tb_delays)
    if order is not None:
        instrument.inject_schedule(sim, order[1], identity=(order[0] == "identity"))
    sim.run()
    final = None
    return trace, problems, facts


# ---- replacement: circuit vs equivalent process ----------------------------------------------------------
def run_replacement(kind, as_process, stim, rng_seed, edge="pos", reruns=1):
    """A circuit, or the process the simulator guide gives as its equivalent, under the same testbench; the
    simulation is run, then reset() and run again `reruns` times: -> the concatenated observation traces."""
    from amaranth.hdl import Module, Signal, ClockDomain, Period
    from amaranth.sim import Simulator
    m = Module()
    trace = []
    if kind == "adder":
        a, bb, o = Signal(8, init=3), Signal(8, init=4), Signal(9)
        if not as_process:
            m.d.comb += o.eq(a + bb + 1)
        else:
            keep = Signal()
            m.d.comb += keep.eq(o[0])
        sim = Simulator(m)
        if as_process:
            async def proc(ctx):
                async for a_v, b_v in ctx.changed(a, bb):
                    ctx.set(o, a_v + b_v + 1)
            sim.add_process(proc)

        async def tb(ctx):
            trace.append(("initial", ctx.get(o)))
            for (x, y) in stim:
                ctx.set(a, x)
                trace.append(ctx.get(o))
                ctx.set(bb, y)
                trace.append(ctx.get(o))
        sim.add_testbench(tb)
        sim.run()
        for _ in range(reruns):
            trace.append("reset")
            sim.reset()
            sim.run()
        return trace
    async_reset = kind == "counter-async"
    cd = ClockDomain("sync", async_reset=async_reset, clk_edge=edge)
    m.domains.sync = cd
    en, count = Signal(init=1), Signal(4, init=3)
    if not as_process:
        with m.If(en):
            m.d.sync += count.eq(count + 1)
    else:
        keep = Signal()
        m.d.sync += keep.eq(count[0] ^ en)
    sim = Simulator(m)
    sim.add_clock(Period(fs=10))
    if as_process:
        async def proc(ctx):
            value = 3
            async for clk_edge, rst_v, en_v in ctx.tick().sample(en):
                if rst_v:
                    value = 3
                    ctx.set(count, value)
                elif clk_edge and en_v:
                    value = (value + 1) & 15
                    ctx.set(count, value)
        sim.add_process(proc)

    async def tb(ctx):
        for (e, r, nt) in stim:
            ctx.set(en, e)
            ctx.set(cd.rst, r)
            trace.append(("after-set", ctx.get(count)))
            for _ in range(nt):
                if nt == 3:
                    # (also between clock edges: an asynchronous reset acts at once, in either form)
                    await ctx.delay(Period(fs=3))
                    trace.append(("between-edges", ctx.get(count)))
                    ctx.set(cd.rst, 1 - r)
                    trace.append(("reset-toggled-between-edges", ctx.get(count)))
                    ctx.set(cd.rst, r)
                clk_hit, rst_active = (await ctx.tick())[:2]
                trace.append(("tick", ctx.get(count), ctx.elapsed_time().femtoseconds, bool(rst_active)))
    sim.add_testbench(tb)
    sim.run()
    for _ in range(reruns):
        trace.append("reset")
        sim.reset()
        sim.run()
    return trace


def check_legacy_sync_process(rng, out):
    """The deprecated-but-supported generator API: add_sync_process(proc, domain="slow") stands in for a register of
    domain "slow" while an unrelated "sync" clock runs beside it; after every slow tick the process output equals
    the register."""
    import warnings
    from amaranth.hdl import Module, Signal, ClockDomain, Period
    from amaranth.sim import Simulator
    m = Module()
    m.domains.sync = ClockDomain("sync", reset_less=True)
    m.domains.slow = ClockDomain("slow", reset_less=True)
    q, outp, other = Signal(8), Signal(8), Signal(8)
    m.d.slow += q.eq(q + 1)
    m.d.sync += other.eq(other + 1)
    keep = Signal()
    m.d.comb += keep.eq(outp[0])
    sp, fp_ = rng.choice([40, 100, 300]), rng.choice([4, 10, 30, 46])
    sim = Simulator(m)
    sim.add_clock(Period(fs=sp), domain="slow")
    sim.add_clock(Period(fs=fp_), domain="sync", phase=Period(fs=rng.choice([1, 3, fp_ // 2])))
    bad = []

    def proc():
        v = 0
        while True:                      # (the process is first resumed at the first active edge of its domain)
            v = (v + 1) & 0xff
            yield outp.eq(v)
            yield

    async def tb(ctx):
        for n in range(12):
            await ctx.tick("slow")
            a, b_ = ctx.get(q), ctx.get(outp)
            out["evaluations"] += 1
            if a != b_:
                bad.append(dict(slow_period_fs=sp, sync_period_fs=fp_, slow_tick=n + 1, register=a, process_output=b_))
                return
    with warnings.catch_warnings():
        warnings.simplefilter("ignore")
        sim.add_sync_process(proc, domain="slow")
        sim.add_testbench(tb)
        try:
            sim.run_until(Period(fs=sp * 14))
        except Exception as ex:
            if exc_origin(ex) != "repo":
                raise
            bad.append(dict(exception=repr(ex)[:200]))
    out["hist"]["legacy-sync-process"] = out["hist"].get("legacy-sync-process", 0) + 1
    for b in bad:
        out["violations"].append({"mechanism": "circuit-vs-equivalent-process:legacy-add_sync_process", "detail": b})


def check_clock_phase(rng, out):
    """add_clock(period, phase=...): the clock first toggles at its phase (an explicit phase of zero included) and
    then every half period.  Observed through a counter in the clocked domain read at instants that are not toggle
    instants: the number of active edges up to T is a function of (period, phase, T) alone."""
    from amaranth.hdl import Module, Signal, ClockDomain, Period
    from amaranth.sim import Simulator
    period = rng.choice([10, 12, 1000, 83333332]) * 2          # femtoseconds, even
    phase = rng.choice([None, 0, 0, 1, period // 2, period // 2 + 1, period, 3 * period + 1])
    edge = rng.choice(["pos", "neg"])
    m = Module()
    cd = ClockDomain("sync", clk_edge=edge, reset_less=True)
    m.domains.sync = cd
    count = Signal(16)
    m.d.sync += count.eq(count + 1)
    sim = Simulator(m)
    if phase is None:
        sim.add_clock(Period(fs=period))
    else:
        sim.add_clock(Period(fs=period), phase=Period(fs=phase))
    ph = period // 2 if phase is None else phase
    half = period // 2
    bad = []

    def active_edges_upto(t):
        # toggles at ph + k*half (k = 0, 1, ...); the clock starts low, so even k are rising edges
        if t < ph:
            return 0
        k_last = (t - ph) // half
        n_rising, n_falling = k_last // 2 + 1, (k_last + 1) // 2
        return n_rising if edge == "pos" else n_falling

    async def tb(ctx):
        t = 0
        for _ in range(12):
            step = rng.randrange(1, 3 * period)
            t += step
            while t >= ph and (t - ph) % half == 0:       # never look exactly at a toggle instant
                t += 1
                step += 1
            await ctx.delay(Period(fs=step))
            got, exp = ctx.get(count), active_edges_upto(t) & 0xffff
            out["evaluations"] += 1
            if got != exp or ctx.elapsed_time().femtoseconds != t:
                bad.append(dict(period_fs=period, phase_fs=phase, edge=edge, at_fs=t, elapsed_fs=ctx.elapsed_time().femtoseconds,
                                active_edges_counted=got, expected=exp))
                return
    sim.add_testbench(tb)
    sim.run()
    out["hist"]["clock-phase:" + ("default" if phase is None else "zero" if phase == 0 else "other")] = \
        out["hist"].get("clock-phase:" + ("default" if phase is None else "zero" if phase == 0 else "other"), 0) + 1
    for b in bad:
        out["violations"].append({"mechanism": "clock-first-toggle-or-period", "detail": b})


def check_replacements(rng, out):
    for kind, edge in (("adder", "pos"), ("counter-sync", "pos"), ("counter-async", "pos"), ("counter-sync", "neg"), ("counter-async", "neg")):
        if kind == "adder":
            stim = [(rng.getrandbits(8), rng.getrandbits(8)) for _ in range(12)]
        else:
            stim = [(rng.getrandbits(1), int(rng.random() < 0.25), rng.randrange(1, 4)) for _ in range(10)]
        label = kind + ("" if kind == "adder" else ":" + edge + "edge")
        try:
            t_circ = run_replacement(kind, False, stim, 0, edge)
            t_proc = run_replacement(kind, True, stim, 0, edge)
        except Exception as ex:
            if exc_origin(ex) != "repo":
                raise
            out["violations"].append({"mechanism": f"replacement-exception:{label}:{type(ex).__name__}", "detail": {"stimulus": stim, "exception": repr(ex)[:300]}})
            continue
        out["evaluations"] += 1
        out["extra"]["replacements_compared"] += 1
        out["hist"]["replacement:" + label] = out["hist"].get("replacement:" + label, 0) + 1
        if t_circ != t_proc:
            k = next((i for i, (x, y) in enumerate(zip(t_circ, t_proc)) if x != y), -1)
            after_reset = "reset" in t_circ[:k] if k >= 0 else False
            out["violations"].append({"mechanism": f"circuit-vs-equivalent-process:{label}" + (":after-reset()" if after_reset else ""),
                                      "detail": {"stimulus": stim, "first_difference": k, "circuit": t_circ[k] if k >= 0 else None,
                                                 "process": t_proc[k] if k >= 0 else None}})
        half = t_circ.index("reset") if "reset" in t_circ else len(t_circ)
        if t_circ[:half] != t_circ[half + 1:]:
            out["violations"].append({"mechanism": f"replacement-circuit-rerun-after-reset-differs:{label}", "detail": {"stimulus": stim}})


def shards(tier, seed):
    n = 320 if tier == "quick" else 2400
    return [{"seed": seed, "shard": i, "cases": n // NSHARDS, "perms": 8 if tier == "quick" else 24} for i in range(NSHARDS)]


def run_shard(spec):
    instrument.install_slot_invariant()
    instrument.install_time_monitor()
    out = {"evaluations": 0, "fps": set(), "hist": {}, "violations": [], "samples": [], "exhaustive": [],
           "extra": {"permutations_applied": 0, "max_ready_set": 0, "wakeups_time_checked": 0, "settle_probes": 0,
                     "tick_probes": 0, "order_probes": 0, "replacements_compared": 0, "distinct_orders_observed": 0}}
    rng = derive_rng("c08", spec["seed"], spec["shard"])
    instrument.PermSet.orders_seen = set()
    for n in range(spec["cases"]):
        case = gen_case(rng)
        try:
            ref_trace, problems, facts = run_case(case, ("identity", 0))
        except Exception as ex:
            if exc_origin(ex) != "repo":
                raise
            out["violations"].append({"mechanism": f"simulation-exception:{type(ex).__name__}", "detail": {"case": case, "exception": repr(ex)[:300]}})
            continue
        out["evaluations"] += 1
        out["extra"]["wakeups_time_checked"] += facts["time"]
        out["extra"]["settle_probes"] += facts["settle"]
        out["extra"]["tick_probes"] += facts["tick"]
        out["extra"]["order_probes"] += facts["order"]
        for mech, d in problems[:2]:
            out["violations"].append({"mechanism": mech, "detail": dict(d, case=case, order="identity")})
        multi_before = instrument.COUNTERS["perm_multi"]
        orders = [None] + [("perm", rng.getrandbits(30)) for _ in range(spec["perms"])]
        for order in orders:
            try:
                tr, pr, fc = run_case(case, order)
            except Exception as ex:
                if exc_origin(ex) != "repo":
                    raise
                out["violations"].append({"mechanism": f"simulation-exception-under-permutation:{type(ex).__name__}",
                                          "detail": {"case": case, "order": order, "exception": repr(ex)[:300]}})
                break
            out["evaluations"] += 1
            out["extra"]["permutations_applied"] += 1
            if pr:
                out["violations"].append({"mechanism": pr[0][0] + ":under-permutation", "detail": dict(pr[0][1], case=case, order=order)})
                break
            if tr != ref_trace:
                k = next((i for i, (x, y) in enumerate(zip(ref_trace, tr)) if x != y), min(len(tr), len(ref_trace)))
                what = "memory" if case["mem"] else "packed-slices" if case["packed"] else "other"
                out["violations"].append({"mechanism": "trace-depends-on-scheduling-order",
                                          "detail": {"case": case, "order": list(order) if order else "natural", "first_difference": k,
                                                     "reference": ref_trace[k] if k < len(ref_trace) else None,
                                                     "permuted": tr[k] if k < len(tr) else None, "features": what}})
                break
        if instrument.COUNTERS["perm_multi"] > multi_before:
            out["fps"].add(fp(case))
        for kk in ("mem", "packed", "comb_proc", "sync_proc"):
            if case[kk]:
                out["hist"]["feature:" + kk] = out["hist"].get("feature:" + kk, 0) + 1
        out["hist"][f"domains:{len(case['doms'])}"] = out["hist"].get(f"domains:{len(case['doms'])}", 0) + 1
        if len(out["samples"]) < 1 and len(case["doms"]) >= 2:
            out["samples"].append({"case": case, "trace_head": ref_trace[:3]})
        if n % 8 == 0:
            check_replacements(rng, out)
        if n % 2 == 0:
            check_clock_phase(rng, out)
        if n % 4 == 1:
            check_legacy_sync_process(rng, out)
        if len(out["violations"]) > 20:
            break
    out["extra"]["distinct_orders_observed"] = len(instrument.PermSet.orders_seen)
    out["extra"]["max_ready_set"] = max((len(o) for o in instrument.PermSet.orders_seen), default=0)
    instrument.PermSet.orders_seen = None
    out["violations"].extend(instrument.VIOLATIONS)
    instrument.VIOLATIONS.clear()
    out["monitors"] = dict(instrument.COUNTERS)
    out["fps"] = sorted(out["fps"])
    return out


def finalize(m, tier, seed):
    ex = m["extra"]
    if not m["violations"]:
        for k in ("wakeups_time_checked", "settle_probes", "tick_probes", "order_probes", "replacements_compared", "distinct_orders_observed"):
            if ex.get(k, 0) == 0:
                m["inconclusive"].append(f"monitor never reached: {k}")


def replay(rec):
    import json
    d = rec["detail"]
    if "case" not in d:
        print("replay: replacement violations are reproduced by re-running the check with the same VERIF_SEED")
        return 0
    case = d["case"]
    ref, pr, fc = run_case(case, ("identity", 0))
    hits = list(pr)
    for s in range(20):
        tr, pr2, _ = run_case(case, ("perm", s))
        if pr2:
            hits += pr2
        if tr != ref:
            hits.append(("trace-depends-on-scheduling-order", {"perm_seed": s}))
            break
    print(json.dumps(hits[:3], default=str)[:2000])
    print("replay:", "VIOLATION reproduced" if hits else "no violation on this tree")
    return 1 if hits else 0
