"""C13 Asynchronous FIFOs are safe under every interleaving of their clocks."""
from .. import fifo as F
from .. import instrument
from ..common import derive_rng, exc_origin

PROPERTY = "C13"
LEVEL = "exploration"
RULE = ("enumerate: full reachable product graph (implementation state x bounded-queue monitor) over the "
        "alphabet {write-clock pulse, read-clock pulse, both at once} x (w_en, w_data, r_en) for "
        "AsyncFIFO depth 1,2 x width 0..2 and AsyncFIFOBuffered depth 2 x width 1, depth 3 x width 0 "
        "(thorough: + AsyncFIFOBuffered depth 3 x width 1, depth 2 x width 2, AsyncFIFO depth 2 x width 2, "
        "depth 4 x width 1); from every reachable state "
        "with a held entry a drain probe (no writes, alternating r/w, w/r and coincident pulses) must "
        "make the oldest entry readable within B cycles of each clock. sample: random walks for depths "
        "{2,4,8,16}(+1 buffered) x width 8..16 with sequence-number tags, ratio schedules 1:1..1:7 "
        "both ways, one-clock stalls, ~15% coincident events. constructibility: every (depth 0..20, "
        "width in {0,1,8}, exact_depth) that constructs must elaborate, simulate and convert with the "
        "documented rounded depth. distinct/non-trivial = distinct visited product states + pushes "
        "observed in walks.")
ASSUMPTIONS = ["bounded progress bound B = 8 cycles of each clock (AsyncFIFO), 12 (AsyncFIFOBuffered); observed maxima are in the evidence",
               "no write-domain reset is applied (not covered by the property)",
               "a 'pulse' is rise-then-fall of that clock through one ctx.set each, so clock levels are not state"]
REQUIRED_MONITORS = ["slot_commit", "mem_commit"]
MIN_NONTRIVIAL = {"quick": 3000, "thorough": 50000}
SHARD_TIMEOUT = {"quick": 1200, "thorough": 14400}

BOUND = {"AsyncFIFO": 8, "AsyncFIFOBuffered": 12}


def shards(tier, seed):
    specs = []
    inst = [("AsyncFIFO", 1, 2), ("AsyncFIFO", 0, 2), ("AsyncFIFO", 1, 0), ("AsyncFIFOBuffered", 1, 0),
            ("AsyncFIFO", 1, 1), ("AsyncFIFO", 2, 1), ("AsyncFIFOBuffered", 1, 2), ("AsyncFIFOBuffered", 0, 3)]
    if tier == "thorough":
        inst += [("AsyncFIFOBuffered", 1, 3), ("AsyncFIFO", 2, 2), ("AsyncFIFOBuffered", 2, 2), ("AsyncFIFO", 1, 4)]
    for (c, w, d) in inst:
        specs.append({"kind": "bfs", "cls": c, "width": w, "depth": d, "seed": seed,
                      "max_states": 250000 if tier == "quick" else 3000000})
    specs.sort(key=lambda s: -(s["depth"] ** 3 * (s["width"] + 1)))
    n = 5000 if tier == "quick" else 60000
    for i, d in enumerate([2, 4, 8, 16]):
        for cls in ("AsyncFIFO", "AsyncFIFOBuffered"):
            for rep in range(1 if tier == "quick" else 2):
                specs.append({"kind": "walk", "cls": cls, "width": 8 + (i * 3 + seed + rep) % 9,
                              "depth": d + (1 if cls.endswith("Buffered") else 0), "events": n,
                              "seed": seed, "shard": i * 2 + rep})
    specs.append({"kind": "construct", "seed": seed})
    return specs


def maker(cls, width, depth, exact=False, domains=None):
    """domains: None (the default names "write"/"read") or a (w_domain, r_domain) pair of other names"""
    def make():
        from amaranth.lib import fifo
        if domains is None:
            return getattr(fifo, cls)(width=width, depth=depth, exact_depth=exact)
        return getattr(fifo, cls)(width=width, depth=depth, exact_depth=exact, w_domain=domains[0], r_domain=domains[1])
    make.domains = domains
    return make


def documented_depth(cls, depth):
    if depth == 0:
        return 0
    if cls == "AsyncFIFO":
        k = 0
        while (1 << k) < depth:
            k += 1
        return 1 << k
    k = 0
    while (1 << k) + 1 < depth:
        k += 1
    return (1 << k) + 1


def check_constructible(out):
    """Every constructible (depth, width, exact_depth) elaborates; fifo.depth obeys the rounding."""
    from amaranth.hdl import Module, ClockDomain
    from amaranth.sim import Simulator
    from amaranth.back import rtlil
    from amaranth.lib import fifo
    n = 0
    for cls in ("AsyncFIFO", "AsyncFIFOBuffered"):
        for depth in range(0, 21):
            for width in (0, 1, 8):
                for exact in (False, True):
                    try:
                        f = getattr(fifo, cls)(width=width, depth=depth, exact_depth=exact)
                    except ValueError:
                        out["hist"]["construct:rejected"] = out["hist"].get("construct:rejected", 0) + 1
                        if not exact or documented_depth(cls, depth) == depth:
                            out["violations"].append({"mechanism": "legal-depth-rejected",
                                                      "detail": {"cls": cls, "depth_arg": depth, "width": width, "exact": exact}})
                        continue
                    n += 1
                    out["hist"]["construct:accepted"] = out["hist"].get("construct:accepted", 0) + 1
                    if f.depth != documented_depth(cls, depth):
                        out["violations"].append({"mechanism": "depth-rounding",
                                                  "detail": {"cls": cls, "depth_arg": depth, "depth": f.depth,
                                                             "documented": documented_depth(cls, depth)}})
                    for what in ("simulate", "convert"):
                        try:
                            if what == "convert":
                                f = getattr(fifo, cls)(width=width, depth=depth, exact_depth=exact)
                            m = Module()
                            m.submodules.dut = f
                            m.domains.read = ClockDomain("read")
                            m.domains.write = ClockDomain("write")
                            if what == "simulate":
                                Simulator(m)
                            else:
                                rtlil.convert(m, ports=[f.w_data, f.w_en, f.w_rdy, f.r_data, f.r_en, f.r_rdy])
                        except Exception as e:
                            if exc_origin(e) != "repo":
                                raise
                            out["violations"].append({"mechanism": "constructible-depth-fails-to-elaborate",
                                                      "detail": {"cls": cls, "depth_arg": depth, "width": width,
                                                                 "exact": exact, "stage": what,
                                                                 "exception": type(e).__name__, "message": str(e)[:200]}})
                            break
    out["evaluations"] += n
    out["extra"]["constructible_checked"] = n
    out["exhaustive"].append("constructibility: depth 0..20 x width {0,1,8} x exact_depth, both classes")


def run_shard(spec):
    instrument.install_slot_invariant()
    instrument.install_construction_contracts()
    out = {"evaluations": 0, "fps": [], "hist": {}, "violations": [], "samples": [], "exhaustive": [],
           "extra": {"distinct_extra": 0, "instances": {}}}
    if spec["kind"] == "construct":
        check_constructible(out)
        out["monitors"] = dict(instrument.COUNTERS)
        return out
    cls, width, depth = spec["cls"], spec["width"], spec["depth"]
    buffered = cls.endswith("Buffered")
    label = f"{cls}(width={width},depth={depth})"
    rng = derive_rng("c13", spec["seed"], cls, width, depth, spec["kind"], spec.get("shard"))
    try:
        if spec["kind"] == "bfs":
            ex = F.Explorer(maker(cls, width, depth), width, False, buffered, max_states=spec["max_states"]).build()
            ex.explore(out, drain_bound=BOUND[cls])
            st = ex.stats
            if ex.violation is None and st["complete"]:
                n, bad = ex.audit_paths(20, rng)
                st["audited_paths"] = n
                if bad is not None:
                    out.setdefault("inconclusive", []).append(f"{label}: state restore audit failed: {bad}")
                out["exhaustive"].append(f"{label}: full reachable product graph, {st['states']} states / {st['transitions']} transitions")
            elif ex.violation is None:
                out.setdefault("inconclusive", []).append(f"{label}: state cap reached ({st['states']})")
            out["extra"]["distinct_extra"] = max(0, st["states"] - 1)
            out["samples"].append({"instance": label, "stats": dict(st)})
        else:
            stats = {}
            dn = rng.choice([None, ("wr", "rd"), ("pix", "sync"), ("sync", "usb")])
            stats["domain-names:" + ("default" if dn is None else "+".join(dn))] = stats.get("domain-names:" + ("default" if dn is None else "+".join(dn)), 0) + 1
            mk = maker(cls, width, depth, domains=dn)
            mk.reset_less = rng.choice([(False, False), (True, False), (False, True), (True, True)])
            stats["reset-less-domains(w,r):" + str(mk.reset_less)] = 1
            ex = F.random_walk(mk, width, False, buffered, spec["events"], rng, stats,
                               drain_bound=BOUND[cls])
            st = ex.stats
            st["transitions"] = spec["events"]
            for k, v in stats.items():
                out["hist"][k] = out["hist"].get(k, 0) + v
            out["extra"]["distinct_extra"] = min(st["pushes"], spec["events"])
            out["samples"].append({"instance": label + " random walk", "stats": dict(st)})
        out["evaluations"] = st["transitions"]
        out["hist"][f"{spec['kind']}:{cls}"] = st["transitions"]
        out["hist"]["coincident_events"] = st.get("coincident_events", 0) + stats.get("event:3", 0) if spec["kind"] == "walk" else st.get("coincident_events", 0)
        out["extra"]["instances"][f"{label}/{spec['kind']}/{spec.get('shard', 0)}"] = {
            k: st[k] for k in ("states", "impl_states", "transitions", "max_occupancy", "complete", "max_depth_path",
                               "pushes", "pops", "drain_probes", "max_drain_events", "coincident_events") if k in st}
        out["extra"]["max_drain_events"] = st.get("max_drain_events", 0)
        if ex.violation is not None:
            v = ex.violation
            out["violations"].append({"mechanism": f"{v.mech}", "detail": dict(v.detail, cls=cls, width=width, depth=depth, kind=spec["kind"], seed=spec["seed"])})
    except Exception as e:
        if exc_origin(e) != "repo":
            raise
        out["violations"].append({"mechanism": f"exception:{type(e).__name__}",
                                  "detail": {"cls": cls, "width": width, "depth": depth, "exception": repr(e)[:300]}})
    out["violations"].extend(instrument.VIOLATIONS)
    instrument.VIOLATIONS.clear()
    out["monitors"] = dict(instrument.COUNTERS)
    return out


def finalize(m, tier, seed):
    inst = m["extra"].get("instances", {})
    m["extra"]["instances_completed"] = sum(1 for v in inst.values() if v.get("complete"))


def replay(rec):
    import json
    d = rec["detail"]
    path = d.get("state_path")
    print(json.dumps({k: d[k] for k in d if k not in ("state_path", "last_events")}, default=str))
    if rec.get("mechanism") in ("constructible-depth-fails-to-elaborate", "depth-rounding", "legal-depth-rejected"):
        out = {"evaluations": 0, "hist": {}, "violations": [], "extra": {}, "exhaustive": []}
        check_constructible(out)
        hit = [v for v in out["violations"] if v["mechanism"] == rec["mechanism"]]
        print("replay:", "VIOLATION reproduced" if hit else "no violation on this tree", hit[:2])
        return 1 if hit else 0
    if d.get("kind") != "bfs" or not path:
        print("replay: random-walk violations are reproduced by re-running the check with the same VERIF_SEED")
        return 0
    cls, width, depth = d["cls"], d["width"], d["depth"]
    ex = F.Explorer(maker(cls, width, depth), width, False, cls.endswith("Buffered"), 0).build()
    mon = F.QueueMonitor(ex.depth, cls.endswith("Buffered"), False)
    res = [None]

    async def tb(ctx):
        q, wait = (), 0
        try:
            for letter in path:
                q, wait = ex.step(ctx, mon, q, wait, tuple(letter))
        except F.Viol as v:
            res[0] = v
    ex.sim.add_testbench(tb)
    ex.sim.run()
    if res[0] is not None:
        print("replay: VIOLATION reproduced:", res[0].mech, res[0].detail)
        return 1
    print("replay: no violation on this tree (drain-probe violations need the check itself)")
    return 0
