"""C19 Resource requests map pins one-to-one and constraints name the right pin."""
import re

from .. import instrument
from ..common import derive_rng, fp, exc_origin

PROPERTY = "C19"
LEVEL = "exploration"
RULE = ("histories: random resource/connector tables (3-10 resources: plain Pins, PinsN, DiffPairs(N), "
        "subsignals 1-2 levels, conn= references through chains of 1-3 connectors, Attrs, Clock; pins "
        "deliberately shared between some resources) x request histories of 5-20 requests (repeats, unknown "
        "names, dir/xdr overrides legal and illegal, dir='-' and pin-interface requests); every outcome "
        "(grant / ResourceError / rejection) compared with a pin-ownership model, every granted port's "
        "bit count, pin names, inversion and direction compared with the table, allocation compared "
        "before/after every refusal and by later model-legal requests. plans: generated tables on "
        "LatticeICE40 (IceStorm .pcf), LatticeECP5 (Trellis .lpf) and Gowin (Apicula .cst) platforms, a "
        "design using a random subset through io.Buffer, build(do_build=False): constraint file parsed "
        "line by line against the table (each used top-level port bit exactly once with its declared "
        "pin; each declared clock once with its period). distinct/non-trivial = distinct (table, history) "
        "with at least one grant and one refusal, or plans with >= 2 resources.")
ASSUMPTIONS = ["resref (this file): dict pin->owner updated only on grant; connector chains followed to a name without ':'",
               "illegal dir/xdr overrides must raise TypeError/ValueError (which of the two is not compared)",
               "vendor templates that call Yosys are rendered with debug Verilog disabled (default)"]
REQUIRED_MONITORS = []
MIN_NONTRIVIAL = {"quick": 300, "thorough": 3000}
NSHARDS = 16

DIRS = ("i", "o", "oe", "io")


# ---- table IR ------------------------------------------------------------------------------------
def gen_table(rng, for_plan=False):
    """-> dict(connectors=[(name, number, {pin: target}, conn|None)], resources=[res])
    res = dict(name, number, node); node = ('pins', names, dir, invert, conn, clock_mhz|None, attrs)
                                         | ('diff', p, n, dir, invert, conn, clock, attrs) | ('group', [(subname, node)], attrs)"""
    pool = [f"P{k}" for k in range(rng.randrange(8, 26))]
    conns = []
    nconn = rng.randrange(0, 4)
    prev = None
    for c in range(nconn):
        name, number = rng.choice(["pmod", "hdr", "j"]), c
        npins = rng.randrange(2, 9)
        mapping = {}
        if prev is not None and rng.random() < 0.6:
            # chained: maps to pins of the previous connector
            tgt = list(prev[2].keys())
            rng.shuffle(tgt)
            for k in range(min(npins, len(tgt))):
                mapping[str(k + 1)] = tgt[k]
            conn = (prev[0], prev[1])
        else:
            for k in range(npins):
                if rng.random() < 0.15:
                    continue
                mapping[str(k + 1)] = rng.choice(pool)
            if len(set(mapping.values())) != len(mapping) and for_plan:
                seen = set()
                mapping = {k: v for k, v in mapping.items() if not (v in seen or seen.add(v))}
            conn = None
        if not mapping:
            mapping["1"] = rng.choice(pool)
        prev = (name, number, mapping, conn)
        conns.append(prev)
    used = set()

    def pick_pins(n, fresh):
        """-> (names, conn)"""
        if conns and rng.random() < 0.4:
            c = rng.choice(conns)
            keys = list(c[2].keys())
            rng.shuffle(keys)
            keys = keys[:n]
            if fresh:
                keys = [k for k in keys if resolve_name(conns, f"{c[0]}_{c[1]}:{k}") not in used]
            if keys:
                for k in keys:
                    used.add(resolve_name(conns, f"{c[0]}_{c[1]}:{k}"))
                return keys, (c[0], c[1])
        cand = [p for p in pool if (p not in used) or not fresh]
        rng.shuffle(cand)
        names = cand[:n] if len(cand) >= n else cand
        if not names:
            names = [f"X{len(used)}"]
        for p in names:
            used.add(p)
        return names, None

    def leaf(fresh):
        n = rng.choice([1, 1, 1, 2, 3, 4])
        d = rng.choice(DIRS)
        inv = rng.random() < 0.3
        clock = rng.choice([None, None, None, 12, 48, 100.5]) if n == 1 else None
        attrs = rng.choice([{}, {}, {"IO_TYPE": "LVCMOS33"}, {"PULLUP": 1}])
        if rng.random() < 0.2:
            p, conn = pick_pins(n, fresh)
            if conn is None:
                nn, _ = pick_pins(len(p), fresh)
                nn = [x for x in nn if True][:len(p)]
                if len(nn) == len(p):
                    return ("diff", p, nn, d, inv, None, clock, attrs)
            else:
                # the negative leg through the same connector
                c = [c for c in conns if (c[0], c[1]) == conn][0]
                keys = [k for k in c[2] if k not in p]
                if fresh:
                    keys = [k for k in keys if resolve_name(conns, f"{c[0]}_{c[1]}:{k}") not in used]
                if len(keys) >= len(p):
                    nn = keys[:len(p)]
                    for k in nn:
                        used.add(resolve_name(conns, f"{c[0]}_{c[1]}:{k}"))
                    return ("diff", p, nn, d, inv, conn, clock, attrs)
            return ("pins", p, d, inv, conn, clock, attrs)
        p, conn = pick_pins(n, fresh)
        return ("pins", p, d, inv, conn, clock, attrs)

    def node(depth, fresh):
        if depth < 2 and rng.random() < (0.35 if depth == 0 else 0.25):
            subs = []
            for k in range(rng.randrange(1, 4)):
                subs.append((rng.choice(["d", "ck", "cs", "a", "b"]) + str(k), node(depth + 1, fresh)))
            return ("group", subs, rng.choice([{}, {"DRIVE": "4"}]))
        return leaf(fresh)
    res = []
    for k in range(rng.randrange(3, 11)):
        fresh = for_plan or rng.random() < 0.6     # otherwise pins may collide with earlier resources
        res.append({"name": rng.choice(["led", "btn", "bus", "uart", "clk"]), "number": k, "node": node(0, fresh)})
    table = {"connectors": [list(c) for c in conns], "resources": res}
    if for_plan and rng.random() < 0.3:
        # two resources whose generated I/O port names coincide (<name>_<number>__<subsignal>...): the design has to
        # rename one of the top-level ports, and the constraint file has to follow
        na = len(res)
        la, lb = None, None
        for _ in range(12):
            la = la if la is not None and la[0] == "pins" else leaf(True)
            lb = lb if lb is not None and lb[0] == "pins" else leaf(True)
        if la[0] == "pins" and lb[0] == "pins":
            res.append({"name": "bus", "number": na, "node": ("group", [("d_1", la)], {})})
            res.append({"name": f"bus_{na}__d", "number": 1, "node": lb})
            table["colliding"] = [na, na + 1]
    return table


def resolve_name(conns, name):
    table = {}
    for (cn, num, mapping, conn) in conns:
        for k, v in mapping.items():
            table[f"{cn}_{num}:{k}"] = v if conn is None else f"{conn[0]}_{conn[1]}:{v}"
    n = 0
    while ":" in name:
        name = table[name]
        n += 1
        assert n < 20
    return name


def leaves(table, res):
    """-> [(path tuple, node, pins_p, pins_n)] with physical names resolved by the model."""
    out = []

    def walk(node, path):
        if node[0] == "group":
            for sub, nd in node[1]:
                walk(nd, path + (sub,))
        elif node[0] == "pins":
            conn = node[4]
            names = [resolve_name(table["connectors"], f"{conn[0]}_{conn[1]}:{p}") if conn else p for p in node[1]]
            out.append((path, node, names, []))
        else:
            conn = node[5]
            f = lambda p: resolve_name(table["connectors"], f"{conn[0]}_{conn[1]}:{p}") if conn else p
            out.append((path, node, [f(p) for p in node[1]], [f(p) for p in node[2]]))
    walk(res["node"], (f"{res['name']}_{res['number']}",))
    return out


def build_table(table, str_attrs=False):
    # (str_attrs: the Tcl templates quote attribute values as text; integer-valued attributes are left to the
    # line-oriented templates, the property being about pins and clocks)
    sa = (lambda a: {k: (str(v) if isinstance(v, int) else v) for k, v in a.items()}) if str_attrs else (lambda a: a)
    from amaranth.build import Resource, Subsignal, Pins, DiffPairs, Attrs, Clock, Connector
    from amaranth.hdl import Period
    conns = []
    for (cn, num, mapping, conn) in table["connectors"]:
        conns.append(Connector(cn, num, dict(mapping), conn=tuple(conn) if conn else None))

    def mk(node):
        args = []
        if node[0] == "group":
            for sub, nd in node[1]:
                args.append(Subsignal(sub, *mk(nd)))
            if node[2]:
                args.append(Attrs(**sa(node[2])))
            return args
        if node[0] == "pins":
            _, names, d, inv, conn, clock, attrs = node
            args.append(Pins(" ".join(names), dir=d, invert=inv, conn=tuple(conn) if conn else None))
        else:
            _, p, n, d, inv, conn, clock, attrs = node
            args.append(DiffPairs(" ".join(p), " ".join(n), dir=d, invert=inv, conn=tuple(conn) if conn else None))
        if clock is not None:
            args.append(Clock(Period(MHz=clock)))
        if attrs:
            args.append(Attrs(**sa(attrs)))
        return args
    ress = [Resource(r["name"], r["number"], *mk(r["node"])) for r in table["resources"]]
    return ress, conns


# ---- histories -----------------------------------------------------------------------------------
def gen_dir_override(rng, node, legal):
    """A dir override structure for the node; legal per documented rule (io -> i/o/oe, anything -> '-')."""
    if node[0] == "group":
        if rng.random() < 0.5:
            return {sub: gen_dir_override(rng, nd, legal) for sub, nd in node[1] if rng.random() < 0.8}
        return None
    d = node[2] if node[0] == "pins" else node[3]
    if legal:
        opts = ["-", d, None]
        if d == "io":
            opts += ["i", "o", "oe"]
        return rng.choice(opts)
    bad = [x for x in DIRS if x != d and d != "io"]
    return rng.choice(bad) if bad else "x"


def override_legal(node, ov):
    """Model of merge_options acceptance. ov: None | '-' | str | dict"""
    if node[0] == "group":
        if ov is None or ov == "-":
            return True
        if not isinstance(ov, dict):
            return False
        return all(override_legal(nd, ov.get(sub)) for sub, nd in node[1])
    d = node[2] if node[0] == "pins" else node[3]
    if ov is None:
        return True
    if isinstance(ov, dict):
        return False
    if ov not in ("i", "o", "oe", "io", "-"):
        return False
    return ov == d or d == "io" or ov == "-"


def leaf_override(node, ov, path_rest):
    """The effective requested direction of a leaf, following merge_options."""
    if ov == "-":
        return "-"
    for sub in path_rest:
        if isinstance(ov, dict):
            ov = ov.get(sub)
        else:
            ov = None
    return ov


def snapshot(mgr):
    snap = {}
    for attr in ("_requested", "_phys_reqd", "_pins", "_io_clocks"):
        if hasattr(mgr, attr):
            v = getattr(mgr, attr)
            snap[attr] = sorted(map(str, v.keys())) if hasattr(v, "keys") else len(v)
    return snap


def check_port(port, node, pins_p, pins_n, detail, viols):
    from amaranth.lib import io
    d = node[2] if node[0] == "pins" else node[3]
    inv = node[3] if node[0] == "pins" else node[4]
    exp_dir = {"i": io.Direction.Input, "o": io.Direction.Output, "oe": io.Direction.Output, "io": io.Direction.Bidir}[d]

    def bad(what, **kw):
        viols.append({"mechanism": "granted-port-" + what, "detail": dict(detail, **kw)})
    if node[0] == "pins":
        if not isinstance(port, io.SingleEndedPort):
            return bad("wrong-kind", got=type(port).__name__)
        ios = [port.io]
        exp = [pins_p]
    else:
        if not isinstance(port, io.DifferentialPort):
            return bad("wrong-kind", got=type(port).__name__)
        ios = [port.p, port.n]
        exp = [pins_p, pins_n]
    if len(port) != len(pins_p):
        bad("bit-count", got=len(port), expected=len(pins_p))
    for iop, names in zip(ios, exp):
        got = [m.name if m is not None else None for m in iop.metadata]
        if got != names:
            bad("pin-names", got=got, expected=names)
    if tuple(port.invert) != (bool(inv),) * len(pins_p):
        bad("inversion", got=list(port.invert), expected=bool(inv))
    if port.direction != exp_dir:
        bad("direction", got=str(port.direction), expected=str(exp_dir), declared=d)


def run_history(rng, out):
    from amaranth.build.res import ResourceManager, ResourceError
    table = gen_table(rng)
    if table["connectors"] and rng.random() < 0.3:
        # a resource whose first subsignal is fine and whose later subsignal names a connector pin that does not
        # exist: the request is refused for a reason other than a pin conflict, after pins were already taken
        c0 = table["connectors"][0]
        table["resources"].append({"name": "dang", "number": 0, "dangling": True, "node": (
            "group", [("ok", ("pins", ["Q0", "Q1"], "io", False, None, 12, {})),
                      ("bad", ("pins", ["99"], "i", False, (c0[0], c0[1]), None, {}))], {})})
        table["resources"].append({"name": "dang", "number": 1, "node": ("pins", ["Q1"], "o", False, None, None, {})})
    try:
        ress, conns = build_table(table)
        mgr = ResourceManager(ress, conns)
    except Exception as e:
        if exc_origin(e) != "repo":
            raise
        out["violations"].append({"mechanism": f"table-construction-exception:{type(e).__name__}",
                                  "detail": {"table": table, "exception": repr(e)[:300]}})
        return
    owner = {}
    requested = set()
    hist = []
    ngrant = nrefuse = 0
    byname = {(r["name"], r["number"]): r for r in table["resources"]}
    keys = list(byname)
    nreq = rng.randrange(5, 21)
    plan = []
    for _ in range(nreq):
        x = rng.random()
        if x < 0.08:
            plan.append((("nosuch", 7), None, None, True))
        else:
            k = rng.choice(keys)
            legal = rng.random() < 0.85
            ov = gen_dir_override(rng, byname[k]["node"], legal) if rng.random() < 0.8 else None
            plan.append((k, ov, None, legal))
    # afterwards: every resource once more with dir="-" (later model-legal requests must be granted)
    rest = list(keys)
    rng.shuffle(rest)
    plan += [(k, "-", None, True) for k in rest]
    for (k, ov, xdr, _) in plan:
        res = byname.get(k)
        before = snapshot(mgr)
        detail = {"table": table, "history": hist + [[list(k), ov]], "request": [list(k), ov]}
        # model verdict
        if res is None:
            expect = "ResourceError"
        elif k in requested:
            expect = "ResourceError"
        elif not override_legal(res["node"], ov):
            expect = "reject"
        elif res.get("dangling"):
            expect = "refused"
        else:
            lv = leaves(table, res)
            mine = []
            clash = False
            for (path, node, pp, pn) in lv:
                for p in pp + pn:
                    if p in owner or p in mine:
                        clash = True
                    mine.append(p)
            expect = "ResourceError" if clash else "grant"
        out["evaluations"] += 1
        try:
            got = mgr.request(k[0], k[1], dir=ov) if ov is not None else mgr.request(k[0], k[1])
            outcome = "grant"
        except ResourceError:
            outcome = "ResourceError"
        except (TypeError, ValueError) as e:
            outcome = "reject"
        except Exception as e:
            if exc_origin(e) != "repo":
                raise
            outcome = f"exception:{type(e).__name__}"
        if expect == "refused" and outcome != "grant":
            out["hist"]["refused-for-a-dangling-connector-pin:" + outcome] = out["hist"].get("refused-for-a-dangling-connector-pin:" + outcome, 0) + 1
            outcome = "refused"
        hist.append([list(k), ov, outcome])
        out["hist"][f"outcome:{expect}->{outcome}"] = out["hist"].get(f"outcome:{expect}->{outcome}", 0) + 1
        if outcome != expect:
            mech = {("grant", "ResourceError"): "model-legal-request-refused",
                    ("ResourceError", "grant"): "conflicting-or-repeated-request-granted"}.get((expect, outcome), f"outcome-mismatch:{expect}->{outcome}")
            # a refused request that the model grants right after an earlier refusal = leaked allocation
            detail["expected"] = expect
            detail["outcome"] = outcome
            out["violations"].append({"mechanism": mech, "detail": detail})
            return
        if outcome == "grant":
            ngrant += 1
            requested.add(k)
            lv = leaves(table, res)
            for (path, node, pp, pn) in lv:
                for p in pp + pn:
                    owner[p] = path
                eff = leaf_override(res["node"], ov, path[1:])
                obj = got
                for sub in path[1:]:
                    obj = getattr(obj, sub, None)
                if obj is None:
                    out["violations"].append({"mechanism": "granted-port-missing-subsignal", "detail": dict(detail, path=list(path))})
                    continue
                if eff == "-":
                    check_port(obj, node, pp, pn, dict(detail, path=list(path)), out["violations"])
                    out["extra"]["ports_checked"] += 1
                else:
                    # deprecated pin interface: the port is recorded by the manager
                    want_dir = eff if eff is not None else (node[2] if node[0] == "pins" else node[3])
                    found = [(pin, port) for (pin, port, buf) in mgr.iter_pins() if pin is obj]
                    if len(found) != 1:
                        out["violations"].append({"mechanism": "pin-interface-not-recorded-once", "detail": dict(detail, path=list(path), n=len(found))})
                    else:
                        check_port(found[0][1], node, pp, pn, dict(detail, path=list(path)), out["violations"])
                        if obj.dir != want_dir or obj.width != len(pp):
                            out["violations"].append({"mechanism": "pin-interface-dir-or-width", "detail": dict(detail, path=list(path), got=[obj.dir, obj.width], expected=[want_dir, len(pp)])})
                        out["extra"]["pins_checked"] += 1
        else:
            nrefuse += 1
            after = snapshot(mgr)
            if after != before:
                out["violations"].append({"mechanism": "refused-request-changed-allocation",
                                          "detail": dict(detail, before=before, after=after, outcome=outcome)})
                return
            out["extra"]["refusals_state_compared"] += 1
    if ngrant and nrefuse:
        out["fps"].add(fp([table, [h[:2] for h in hist][:8]]))


# ---- build plans ---------------------------------------------------------------------------------
def make_platform(vendor, ress, conns, default_clk):
    from amaranth.vendor import LatticeICE40Platform, LatticeECP5Platform, GowinPlatform
    if vendor == "mistral":
        from amaranth.vendor import AlteraPlatform

        class P(AlteraPlatform):
            device = "5CSEBA6"
            package = "U23"
            speed = "I7"
            suffix = ""
            resources = ress
            connectors = conns
        return P(toolchain="Mistral"), "top.qsf"
    if vendor == "oxide":
        from amaranth.vendor import LatticePlatform

        class P(LatticePlatform):
            device = "LIFCL-40-9BG400C"
            package = "BG400"
            speed = "9"
            resources = ress
            connectors = conns
        return P(toolchain="Oxide"), "top.pdc"
    if vendor == "ice40":
        class P(LatticeICE40Platform):
            device = "iCE40HX8K"
            package = "CT256"
            resources = ress
            connectors = conns
        p = P()
    elif vendor == "ecp5":
        class P(LatticeECP5Platform):
            device = "LFE5U-25F"
            package = "BG256"
            speed = "6"
            resources = ress
            connectors = conns
        p = P(toolchain="Trellis")
    else:
        class P(GowinPlatform):
            part = "GW1N-LV1QN48C6/I5"
            family = "GW1N-1"
            osc_frequency = None
            resources = ress
            connectors = conns
        p = P(toolchain="Apicula")
    return p, {"ice40": "top.pcf", "ecp5": "top.lpf", "gowin": "top.cst"}[vendor]


TCL_WORD = r'"(?:[^"\\]|\\.)*"'


def tcl_unquote(word):
    """The string a Tcl interpreter hands to the command for one double-quoted word, and the substitutions it
    would perform on the way (Tcl's dodekalogue, rules 4, 7, 8, 9): `\\c` yields c, a `$` in front of a name
    character substitutes a variable, a `[` starts a command substitution."""
    assert len(word) >= 2 and word[0] == '"' and word[-1] == '"'
    s, res, hazards, i = word[1:-1], [], [], 0
    while i < len(s):
        c = s[i]
        if c == "\\" and i + 1 < len(s):
            n = s[i + 1]
            if n in "abfnrtvxuU01234567\n":
                hazards.append("escape-sequence-\\" + n)
            res.append(n)
            i += 2
            continue
        if c == "$" and i + 1 < len(s) and (s[i + 1].isalnum() or s[i + 1] in "_{(:"):
            hazards.append("variable-substitution")
        if c == "[":
            hazards.append("command-substitution")
        res.append(c)
        i += 1
    return "".join(res), hazards


def parse_constraints(vendor, text, hazards=None):
    locs, freqs, other = [], [], []
    hazards = [] if hazards is None else hazards

    def unq(word):
        name, hz = tcl_unquote(word)
        hazards.extend((h, word) for h in hz)
        return name
    for ln in text.splitlines():
        ln = ln.strip()
        if not ln or ln.startswith("#") or ln.startswith("//") or ln.startswith("BLOCK"):
            continue
        if vendor == "mistral":
            m = re.fullmatch(r"set_location_assignment -to (%s) PIN_(\S+)" % TCL_WORD, ln)
            if m:
                locs.append((unq(m.group(1)), m.group(2)))
                continue
            if ln.startswith("set_instance_assignment -to "):
                continue
        elif vendor == "oxide":
            # (pin lines are written in nextpnr's own .pdc dialect, unquoted; clock lines are Tcl-quoted words)
            m = re.fullmatch(r"ldc_set_location -site \{(\S+)\} \[get_ports (\S+)\]", ln)
            if m:
                locs.append((m.group(2), m.group(1)))
                continue
            m = re.fullmatch(r"create_clock -name (%s) -period (\S+) \[get_(ports|nets) (%s)\]" % (TCL_WORD, TCL_WORD), ln)
            if m:
                nm, target = unq(m.group(1)), unq(m.group(4))
                if m.group(3) == "ports" and nm != target:
                    hazards.append(("clock-name-differs-from-its-port", ln))
                freqs.append((target if m.group(3) == "ports" else "net:" + target, 1e9 / float(m.group(2))))
                continue
            if ln.startswith("ldc_set_port -iobuf "):
                continue
        elif vendor == "ice40":
            m = re.fullmatch(r"set_io (\S+) (\S+)", ln)
            if m:
                locs.append((m.group(1), m.group(2)))
                continue
            m = re.fullmatch(r"set_frequency (\S+) (\S+)", ln)
            if m:
                freqs.append((m.group(1), float(m.group(2)) * 1e6))
                continue
        elif vendor == "ecp5":
            m = re.fullmatch(r'LOCATE COMP "([^"]+)" SITE "([^"]+)";', ln)
            if m:
                locs.append((m.group(1), m.group(2)))
                continue
            m = re.fullmatch(r'FREQUENCY PORT "([^"]+)" (\S+) HZ;', ln)
            if m:
                freqs.append((m.group(1), float(m.group(2))))
                continue
            if ln.startswith("IOBUF PORT"):
                continue
        else:
            m = re.fullmatch(r'IO_LOC "([^"]+)" (\S+);', ln)
            if m:
                locs.append((m.group(1), m.group(2)))
                continue
            if ln.startswith("IO_PORT"):
                continue
        other.append(ln)
    return locs, freqs, other


def top_ports(il_text):
    """Top-level port names and widths from the emitted RTLIL (read with the independent reader)."""
    from ..rtlil import parse as P
    doc = P.parse(il_text)
    return {name.lstrip("\\"): w.width for name, w in doc.top().wires.items() if w.port_kind is not None}


def run_plan(rng, out, vendor):
    from amaranth.hdl import Module, Signal, Elaboratable, ClockDomain
    from amaranth.lib import io
    table = gen_table(rng, for_plan=True)
    # the plan generator uses disjoint pins, so every request is granted
    ress, conns = build_table(table, str_attrs=vendor in ("mistral", "oxide"))
    use = [r for k, r in enumerate(table["resources"]) if rng.random() < 0.7 or k in table.get("colliding", ())] or table["resources"][:1]
    p, cfile = make_platform(vendor, ress, conns, None)
    expected = {}      # port bit name -> pin
    clocks = {}
    requested = []     # (I/O port object handed out by the platform, declared pins, declared clock in Hz or None)
    negative_legs = []

    class D(Elaboratable):
        def elaborate(self, platform):
            m = Module()
            m.domains.sync = cd = ClockDomain("sync")
            ctr = Signal(8)
            m.d.sync += ctr.eq(ctr + 1)
            acc = Signal(8)
            # a clock generated and constrained inside a sub-module (a PLL wrapper constraining its own output)
            from amaranth.hdl import Period
            sub = Module()
            pllclk = Signal(name="pllclk")
            inner = Signal(4, name="pllctr")
            sub.d.sync += inner.eq(inner + pllclk)
            sub.d.comb += pllclk.eq(inner[1])
            m.submodules.pll = sub
            platform.add_clock_constraint(pllclk, Period(MHz=75))
            k = 0
            for r in use:
                port = platform.request(r["name"], r["number"], dir="-")
                for (path, node, pp, pn) in leaves(table, r):
                    obj = port
                    for sub in path[1:]:
                        obj = getattr(obj, sub)
                    d = node[2] if node[0] == "pins" else node[3]
                    bd = {"i": "i", "o": "o", "oe": "o", "io": rng.choice(["i", "o", "io"])}[d]
                    if bd == "io" and node[0] == "diff" and vendor == "ice40":
                        bd = "o"    # documented vendor restriction: no bidirectional differential I/O
                    buf = io.Buffer(bd, obj)
                    m.submodules[f"buf{k}"] = buf
                    k += 1
                    if bd in ("o", "io"):
                        m.d.comb += buf.o.eq(ctr)
                    if bd == "io":
                        m.d.comb += buf.oe.eq(ctr[0])
                    if bd in ("i", "io"):
                        m.d.sync += acc.eq(acc ^ buf.i)
                    clock = node[5] if node[0] == "pins" else node[6]
                    if node[0] == "pins":
                        requested.append((obj.io, pp, None if clock is None else clock * 1e6))
                    else:
                        requested.append((obj.p, pp, None if clock is None else clock * 1e6))
                        requested.append((obj.n, pn, None))
                        negative_legs.append(requested[-1])
            return m
    cfg = {"vendor": vendor, "table": table, "used": [[r["name"], r["number"]] for r in use]}
    try:
        plan = p.build(D(), do_build=False)
    except Exception as e:
        if exc_origin(e) != "repo":
            raise
        # (the generator stays inside what the three vendors support - see the ice40 restriction above - so a
        # preparation that raises is a failure to constrain the requested ports, not an unsupported request)
        out["violations"].append({"mechanism": f"plan-preparation-raises:{type(e).__name__}",
                                  "detail": dict(cfg, exception=repr(e)[:300])})
        return
    out["evaluations"] += 1
    out["extra"]["plans"] += 1
    text = plan.files[cfile]
    text = text.decode() if isinstance(text, bytes) else text
    il = plan.files["top.il"]
    il = il.decode() if isinstance(il, bytes) else il
    tcl_hazards = []
    locs, freqs, other = parse_constraints(vendor, text, tcl_hazards)
    ports = top_ports(il)

    def bad(mech, **kw):
        out["violations"].append({"mechanism": "constraint-file-" + mech, "detail": dict(cfg, **kw)})
    # the name under which each requested I/O port appears at the top level of the built design (names are
    # de-duplicated there), cross-checked against the port wires of the emitted netlist
    design_names = {}
    for (name, port, _dir) in p._design.ports:
        design_names.setdefault(id(port), name)
    for (ioport, pins, clock) in requested:
        name = design_names.get(id(ioport))
        if name is None:
            if clock is None and pins is not None and any(ioport is q[0] for q in negative_legs):
                continue        # (the complement leg of a differential pair is placed by the vendor primitive)
            bad("requested-port-not-a-top-level-port", declared_pins=pins)
            continue
        if ports.get(name) != len(pins):
            bad("netlist-port-missing-or-wrong-width", port=name, netlist_width=ports.get(name), declared_pins=pins)
        for bit, pin in enumerate(pins):
            nm = name + (f"[{bit}]" if len(pins) > 1 else "")
            if nm in expected:
                bad("two-requested-ports-share-a-top-level-name", port=nm)
            expected[nm] = pin
        if clock is not None:
            clocks[name] = clock
    if len(set(design_names.values())) != len(design_names):
        bad("top-level-port-names-not-unique")
    if "colliding" in table:
        out["hist"]["plan-with-colliding-port-names"] = out["hist"].get("plan-with-colliding-port-names", 0) + 1
        if any("$" in n for n in design_names.values()):
            out["hist"]["plan-with-renamed-port"] = out["hist"].get("plan-with-renamed-port", 0) + 1
    if other:
        out["hist"]["unparsed-constraint-lines"] = out["hist"].get("unparsed-constraint-lines", 0) + len(other)
    seen = {}
    for name, pin in locs:
        if name in seen:
            bad("port-bit-assigned-twice", port=name, pins=[seen[name], pin])
        seen[name] = pin
        if name not in expected:
            bad("unknown-port-bit", port=name, pin=pin)
        elif expected[name] != pin:
            bad("wrong-pin", port=name, pin=pin, declared=expected[name])
        out["extra"]["pin_lines_checked"] += 1
    pins_used = {}
    for name, pin in locs:
        if pin in pins_used and pins_used[pin] != name:
            bad("pin-assigned-to-two-ports", pin=pin, ports=[pins_used[pin], name])
        pins_used[pin] = name
    # every used top-level port bit that belongs to a requested resource is constrained exactly once
    for pname, width in ports.items():
        for bit in range(width):
            nm = pname + (f"[{bit}]" if width > 1 else "")
            if nm in expected and nm not in seen:
                bad("used-port-bit-not-constrained", port=nm, declared=expected[nm])
    # a Tcl-quoted word must reach the tool as the literal name: no substitution may happen on the way
    for (hz, word) in tcl_hazards:
        bad("tcl-quoted-name-is-substituted:" + hz, word=word)
    if vendor in ("mistral", "oxide"):
        out["extra"]["tcl_words_checked"] = out["extra"].get("tcl_words_checked", 0) + \
            len(re.findall(TCL_WORD, "\n".join(l for l in text.splitlines() if not l.lstrip().startswith("#"))))
        if any("$" in w for w in re.findall(TCL_WORD, text)):
            out["hist"]["tcl-word-with-dollar"] = out["hist"].get("tcl-word-with-dollar", 0) + 1
    if vendor not in ("gowin", "mistral"):
        # the net clock declared inside the sub-module: one line naming it, with its frequency
        net_lines = [ln.strip() for ln in text.splitlines() if "pllclk" in ln]
        ok = False
        for ln in net_lines:
            nums = re.findall(r"[-+]?\d+\.?\d*(?:[eE][-+]?\d+)?", ln.replace("pllclk", ""))
            if vendor == "oxide":
                ok = ok or any(float(x) > 0 and abs(1e9 / float(x) - 75e6) < 75 for x in nums)
            else:
                ok = ok or any(abs(float(x) * (1e6 if vendor == "ice40" else 1) - 75e6) < 75 for x in nums)
        out["extra"]["net_clock_lines_checked"] = out["extra"].get("net_clock_lines_checked", 0) + 1
        if len(net_lines) != 1 or not ok:
            bad("net-clock-declared-in-a-submodule-missing-or-wrong", lines=net_lines[:3], declared_hz=75e6)
        freqs = [(nm, hz) for (nm, hz) in freqs if "pllclk" not in nm]
        fseen = {}
        for name, hz in freqs:
            if name in fseen:
                bad("clock-constrained-twice", port=name)
            fseen[name] = hz
            if name not in clocks:
                bad("clock-on-undeclared-port", port=name, hz=hz)
            elif abs(hz - clocks[name]) > 1e-6 * clocks[name]:
                bad("clock-wrong-frequency", port=name, hz=hz, declared_hz=clocks[name])
            out["extra"]["clock_lines_checked"] += 1
        for name in clocks:
            if name in ports and name not in fseen:
                bad("declared-clock-missing", port=name, declared_hz=clocks[name])
    if len(use) >= 2:
        out["fps"].add(fp(["plan", vendor, table]))


def shards(tier, seed):
    n = 640 if tier == "quick" else 64000
    nplan = 160 if tier == "quick" else 5000
    return [{"seed": seed, "shard": i, "histories": n // NSHARDS, "plans": nplan // NSHARDS} for i in range(NSHARDS)]


def run_shard(spec):
    out = {"evaluations": 0, "fps": set(), "hist": {}, "violations": [], "samples": [], "exhaustive": [],
           "extra": {"ports_checked": 0, "pins_checked": 0, "refusals_state_compared": 0, "plans": 0,
                     "pin_lines_checked": 0, "clock_lines_checked": 0}}
    rng = derive_rng("c19", spec["seed"], spec["shard"])
    for _ in range(spec["histories"]):
        run_history(rng, out)
    for k in range(spec["plans"]):
        run_plan(rng, out, ["ice40", "ecp5", "gowin", "mistral", "oxide"][k % 5])
    if "plan_exceptions" in out["extra"]:
        out["extra"]["plan_exceptions"] = sorted(set(out["extra"]["plan_exceptions"]))[:5]
    out["monitors"] = dict(instrument.COUNTERS)
    out["fps"] = sorted(out["fps"])
    return out


def finalize(m, tier, seed):
    ex = m["extra"]
    if "plan_exceptions" in ex:
        ex["plan_exceptions"] = sorted(set(ex["plan_exceptions"]))[:6]
    if not m["violations"]:
        for k in ("ports_checked", "refusals_state_compared", "pin_lines_checked", "clock_lines_checked"):
            if ex.get(k, 0) == 0:
                m["inconclusive"].append(f"monitor never reached: {k}")
