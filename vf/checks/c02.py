"""C02 Assignments and control flow: last active assignment wins, per bit."""
from .. import expr as X
from .. import stmt as S
from .. import exprsim, instrument
from ..common import derive_rng, fp, corner_values, exc_origin

PROPERTY = "C02"
LEVEL = "exploration"
RULE = ("random Module-DSL programs (2-6 inputs, 1-5 comb and 1-4 sync targets, nesting <= 3/5, "
        "<= 12/30 statements: If/Elif/Else, Switch/Case/Default with int, multi, don't-care and "
        "empty patterns, FSM/State/next/ongoing, every assignable target form) driven by 20-60 "
        "steps (input change | clock edge | reset+edge); after every step every driven signal is "
        "compared with stmtref. enumerate: If/Elif/Else chains of length<=3 over 1/2-bit conditions "
        "x all valuations; Switch over a 2-bit test x pattern sets. non-trivial = program has a "
        "conditional construct and (an overridden or partially-targeted assignment); distinct by "
        "structural skeleton (statement kinds, nesting, target forms).")
ASSUMPTIONS = ["stmtref (vf/stmt.py) restates the documented statement semantics; comb logic generated acyclic at signal level",
               "a stimulus step changes either data inputs or clock/reset, never both"]
REQUIRED_MONITORS = ["slot_commit"]
MIN_NONTRIVIAL = {"quick": 200, "thorough": 2000}
NSHARDS = 16


def shards(tier, seed):
    specs = []
    n = 6000 if tier == "quick" else 60000
    for i in range(NSHARDS):
        specs.append({"kind": "sample", "seed": seed, "shard": i, "programs": n // NSHARDS,
                      "nest": 3 if tier == "quick" else 5, "stmts": 12 if tier == "quick" else 30,
                      "steps": 30 if tier == "quick" else 60})
    specs.append({"kind": "enum_if"})
    specs.append({"kind": "enum_switch"})
    return specs


def make_stimulus(rng, spec, nsteps):
    steps = []
    for _ in range(nsteps):
        k = rng.random()
        if k < 0.5:
            steps.append(["in", [rng.choice(corner_values(w, s, rng, 2)) for (w, s) in spec.inputs]])
        elif k < 0.93:
            steps.append(["clk"])
        else:
            steps.append(["rst"])
    return steps


def run_program(spec, steps, out, label="program", max_viol=4):
    """Build, simulate and compare with the reference after every step."""
    from amaranth.hdl import Cat
    from amaranth.sim import Simulator
    try:
        b = S.build_module(spec)
        sim = Simulator(b.m)
    except Exception as ex:
        if exc_origin(ex) != "repo":
            raise
        out["violations"].append({"mechanism": f"{label}-build-exception:{type(ex).__name__}",
                                  "detail": {"spec": spec.d, "exception": repr(ex)[:300]}})
        return
    ref = S.RefState(spec)
    ins = b.sigs[:spec.ni]
    incat = Cat(*ins)
    ienv = [x[:2] for x in spec.inputs]
    nbits = sum(w for w, s in ienv)
    watch = list(range(spec.ni, len(spec.env)))
    done = [False]

    async def tb(ctx):
        def compare(stepno, step):
            got = [ctx.get(b.sigs[i]) for i in watch]
            exp = [ref.vals[i] for i in watch]
            out["evaluations"] += 1
            if got != exp:
                bad = [i for i, (g, e) in zip(watch, zip(got, exp)) if g != e]
                kinds = set()
                for i in bad:
                    kinds.add("comb" if i < spec.ni + spec.nc else "sync" if i < spec.ni + spec.nc + spec.ns else "ongoing")
                out["violations"].append({
                    "mechanism": f"{label}-value-mismatch:" + "+".join(sorted(kinds)),
                    "detail": {"spec": spec.d, "steps": steps[:stepno + 1], "step": stepno,
                               "signals": bad, "simulated": [got[watch.index(i)] for i in bad],
                               "documented": [exp[watch.index(i)] for i in bad]}})
                return False
            return True
        if not compare(-1, None):
            return
        for n, st in enumerate(steps):
            if st[0] == "in":
                if nbits:
                    ctx.set(incat, exprsim.pack(ienv, st[1]))
                ref.set_inputs(st[1])
            elif st[0] == "clk":
                ctx.set(b.cd.clk, b.act)
                ctx.set(b.cd.clk, b.idle)
                ref.clock_edge(0)
            else:
                ctx.set(b.cd.rst, 1)
                ctx.set(b.cd.clk, b.act)
                ctx.set(b.cd.clk, b.idle)
                ctx.set(b.cd.rst, 0)
                ref.clock_edge(1)
            if not compare(n, st):
                return
        done[0] = True
    sim.add_testbench(tb)
    try:
        sim.run()
    except Exception as ex:
        if exc_origin(ex) != "repo":
            raise
        out["violations"].append({"mechanism": f"{label}-simulation-exception:{type(ex).__name__}",
                                  "detail": {"spec": spec.d, "steps": steps, "exception": repr(ex)[:300]}})


def run_design(design, steps, out, label="scattered"):
    """The same program scattered over a module tree, with split signals driven from several
    modules and domains (per-bit drivers in different simulator processes): simulator vs reference."""
    from amaranth.hdl import Cat
    from amaranth.sim import Simulator
    from .. import design as D
    try:
        bd = D.build(design)
        sim = Simulator(bd.top)
    except Exception as ex:
        if exc_origin(ex) != "repo":
            raise
        out["violations"].append({"mechanism": f"{label}-build-exception:{type(ex).__name__}",
                                  "detail": {"design": design, "exception": repr(ex)[:300]}})
        return
    ref = D.Ref(design)
    spec = bd.spec
    ienv = [x[:2] for x in spec.inputs]
    nbits = sum(w for w, s in ienv)
    incat = Cat(*bd.inputs)

    async def tb(ctx):
        def compare(n):
            for name, o, key in bd.outs:
                got = ctx.get(o)
                exp = ref.value(key)
                w = len(o)
                out["evaluations"] += 1
                if exp is None:
                    continue          # unspecified (memory read beyond the depth)
                if (got & ((1 << w) - 1)) != (exp & ((1 << w) - 1)):
                    kind = "split" if isinstance(key, tuple) else "signal"
                    out["violations"].append({"mechanism": f"{label}-value-mismatch:{kind}",
                                              "detail": {"design": design, "steps": steps[:n + 1], "step": n, "output": name,
                                                         "simulated": got, "documented": exp}})
                    return False
            # the split signals themselves, read in their own shape (signed ones must be normalised)
            from ..common import norm as _norm
            for k, sg in enumerate(bd.split_sigs):
                sp = design["splits"][k]
                got = ctx.get(sg)
                exp = _norm(ref.split[k], sp["w"], bool(sp.get("signed")))
                if got != exp:
                    out["violations"].append({"mechanism": f"{label}-value-mismatch:split-signal-read",
                                              "detail": {"design": design, "steps": steps[:n + 1], "step": n, "split": k,
                                                         "simulated": got, "documented": exp}})
                    return False
            return True
        if not compare(-1):
            return
        for n, st in enumerate(steps):
            if st[0] == "in":
                if nbits:
                    ctx.set(incat, exprsim.pack(ienv, st[1]))
                ref.set_inputs(st[1])
            else:
                rst = 1 if st[0] == "rst" else 0
                if rst:
                    ctx.set(bd.cd.rst, 1)
                ctx.set(bd.cd.clk, bd.act)
                ref.clock_edge(rst)
                if not compare(n):
                    return
                ctx.set(bd.cd.clk, bd.idle)
                if rst:
                    ctx.set(bd.cd.rst, 0)
            if not compare(n):
                return
    sim.add_testbench(tb)
    try:
        sim.run()
    except Exception as ex:
        if exc_origin(ex) != "repo":
            raise
        out["violations"].append({"mechanism": f"{label}-simulation-exception:{type(ex).__name__}",
                                  "detail": {"design": design, "steps": steps, "exception": repr(ex)[:300]}})


def nontrivial(spec):
    k = S.stmt_kinds(spec.stmts)
    cond = k.get("if", 0) + k.get("switch", 0) + k.get("fsm", 0)
    partial = sum(v for kk, v in k.items() if kk.startswith("target:"))
    return cond > 0 and (partial > 0 or k.get("assign", 0) >= 3)


def enum_if_specs():
    """All If/Elif/Else chains of length <= 3 over 1- and 2-bit conditions; each arm assigns a
    distinct constant; an earlier unconditional assignment gives the default."""
    for n in (1, 2, 3):
        for widths in ([1] * n, [2] * n, [1, 2, 1][:n]):
            for has_else in (False, True):
                for dom in ("comb", "sync"):
                    inputs = [[w, False] for w in widths]
                    arms = [[["sig", k], [["assign", dom, ["sig", n], ["const", k + 1]]]] for k in range(n)]
                    els = [["assign", dom, ["sig", n], ["const", 7]]] if has_else else None
                    stmts = [["assign", dom, ["sig", n], ["const", 5]], ["if", arms, els]]
                    d = {"inputs": inputs, "comb": [[3, False, 6]] if dom == "comb" else [],
                         "sync": [[3, False, 6, False]] if dom == "sync" else [], "fsms": [], "stmts": stmts}
                    yield S.Spec(d)


def enum_switch_specs():
    import itertools
    pool = ["00", "01", "1-", "--", "-0", 0, 1, 2, 3, "1 0", 5, -1]
    sets = [[]]
    for p in pool:
        sets.append([p])
    for p, q in itertools.combinations(pool[:9], 2):
        sets.append([p, q])
    for signed in (False, True):
        for i in range(0, len(sets), 3):
            cases_sets = sets[i:i + 3]
            for with_default in (None, 0, 1, 3):
                for dom in ("comb", "sync"):
                    cases = [[ps, [["assign", dom, ["sig", 1], ["const", k + 1]]]] for k, ps in enumerate(cases_sets)]
                    if with_default is not None:
                        cases.insert(min(with_default, len(cases)), [None, [["assign", dom, ["sig", 1], ["const", 7]]]])
                    stmts = [["switch", ["sig", 0], cases]]
                    d = {"inputs": [[2, signed]], "comb": [[3, False, 6]] if dom == "comb" else [],
                         "sync": [[3, False, 6, False]] if dom == "sync" else [], "fsms": [], "stmts": stmts}
                    yield S.Spec(d)


def all_input_steps(spec):
    import itertools
    from ..common import value_range
    steps = []
    for vals in itertools.product(*[value_range(w, s) for (w, s) in spec.inputs]):
        steps.append(["in", list(vals)])
        steps.append(["clk"])
    return steps


def run_shard(spec):
    instrument.install_slot_invariant()
    instrument.install_construction_contracts()
    out = {"evaluations": 0, "fps": set(), "hist": {}, "violations": [], "samples": [],
           "exhaustive": [], "extra": {"programs": 0}}
    if spec["kind"] == "sample":
        rng = derive_rng("c02", spec["seed"], spec["shard"])
        for n in range(spec["programs"]):
            g = S.Gen(rng, max_nest=rng.randint(1, spec["nest"]), max_stmts=rng.randint(3, spec["stmts"]))
            sp = g.spec()
            if rng.random() < 0.25:
                sp.d["negedge"] = True          # the sync domain is clocked on the falling edge
                out["hist"]["negedge-sync-domain"] = out["hist"].get("negedge-sync-domain", 0) + 1
            steps = make_stimulus(rng, sp, spec["steps"])
            run_program(sp, steps, out)
            out["extra"]["programs"] += 1
            if n % 3 == 0:
                from .. import design as D
                design = D.scatter(sp, rng, nsplit=rng.choice([1, 2]))
                run_design(design, steps, out)
                out["extra"]["scattered_designs"] = out["extra"].get("scattered_designs", 0) + 1
                out["hist"][f"scatter-modules:{len(design['tree'])}"] = out["hist"].get(f"scatter-modules:{len(design['tree'])}", 0) + 1
            kinds = S.stmt_kinds(sp.stmts)
            for k, v in kinds.items():
                if k != "max_nest":
                    out["hist"][k] = out["hist"].get(k, 0) + v
            out["hist"][f"nesting:{kinds['max_nest']}"] = out["hist"].get(f"nesting:{kinds['max_nest']}", 0) + 1
            if nontrivial(sp):
                out["fps"].add(fp(S.skeleton(sp.stmts)))
            if len(out["samples"]) < 1 and nontrivial(sp):
                out["samples"].append({"spec": sp.d, "steps": steps[:4]})
    else:
        gen = enum_if_specs() if spec["kind"] == "enum_if" else enum_switch_specs()
        for sp in gen:
            run_program(sp, all_input_steps(sp), out, label=spec["kind"])
            out["extra"]["programs"] += 1
            out["fps"].add(fp(["enum", sp.d]))
        out["exhaustive"].append("If/Elif/Else chains len<=3 x all condition values" if spec["kind"] == "enum_if"
                                 else "Switch over 2-bit test x pattern sets x all test values")
    out["violations"].extend(instrument.VIOLATIONS)
    instrument.VIOLATIONS.clear()
    out["monitors"] = dict(instrument.COUNTERS)
    out["fps"] = sorted(out["fps"])
    return out


def replay(rec):
    from ..common import setup_repo_path
    setup_repo_path()
    d = rec["detail"]
    out = {"evaluations": 0, "violations": []}
    if "design" in d:
        run_design(d["design"], d.get("steps", []), out)
    else:
        run_program(S.Spec(d["spec"]), d["steps"], out)
    import json
    print(json.dumps(out["violations"], indent=1, default=str)[:3000])
    print("replay:", "VIOLATION reproduced" if out["violations"] else "no violation on this tree")
    return 1 if out["violations"] else 0
