"""C07 Every emitted RTLIL document is structurally well-formed."""
from .. import instrument
from ..common import derive_rng, fp, exc_origin
from ..rtlil import parse as P
from ..rtlil import check as K

PROPERTY = "C07"
LEVEL = "exploration"
RULE = ("naming/hierarchy stress designs: module trees (1-7 modules, named/anonymous/empty/only-empty "
        "children), signals sharing names inside and across modules, names equal to port, submodule, "
        "'$'-prefixed and previously de-duplicated names, private names, zero-width, unused, partially "
        "used and partially driven signals, signals routed through intermediate modules, explicit "
        "ports of every direction, memories, I/O ports and buffers, foreign instances with int / "
        "negative / huge int / str (quotes, backslashes, newlines) / float / Const parameters and "
        "attributes; plus every document produced by the C04 co-simulation workload. Each text is "
        "parsed by the strict independent reader and checked: references, unique names, widths and "
        "bounds, dense port ids, exactly one driver per non-inout bit, inputs never driven inside, "
        "known cells' parameter/port sets and widths, submodule cells vs declarations, no empty / "
        "dropped modules, instance fidelity against the IR. non-trivial = document with >= 2 modules or "
        "an instance or a name clash; distinct by design fingerprint.")
ASSUMPTIONS = ["grammar = the subset of RTLIL Amaranth emits, read strictly (vf/rtlil/parse.py); bare integers must fit 32 bits",
               "foreign-instance port directions are taken from the IR that produced the design"]
REQUIRED_MONITORS = []
MIN_NONTRIVIAL = {"quick": 400, "thorough": 4000}
NSHARDS = 16


def check_into(doc, out, ctx, foreign=None, io_wires=()):
    errs = K.check(doc, foreign, io_wires)
    out["extra"]["documents_checked"] = out["extra"].get("documents_checked", 0) + 1
    out["extra"]["modules_checked"] = out["extra"].get("modules_checked", 0) + len(doc.modules)
    for m in doc.modules.values():
        out["extra"]["wires_checked"] = out["extra"].get("wires_checked", 0) + len(m.wires)
        out["extra"]["cells_checked"] = out["extra"].get("cells_checked", 0) + len(m.cells)
        out["extra"]["processes_checked"] = out["extra"].get("processes_checked", 0) + len(m.processes)
    seen = set()
    for rule, msg in errs:
        if rule in seen:
            continue
        seen.add(rule)
        out["violations"].append({"mechanism": "structure:" + rule, "detail": dict(ctx, message=msg, errors=len(errs))})
    return errs


# ---- stress generator -----------------------------------------------------------------------------
NAMES = ["a", "a", "b", "x", "a$1", "a$2", "a$3", "clk", "rst", "m1", "m2", "$sig", "o", "data", "a.b", "a[0]"]
STRS = ["plain", 'say "hi"', "back\\slash", "tab\there", "line\nbreak", "", "}{", "x'0", "café"]


def gen_stress(rng):
    """Design IR:
      modules: [{"parent": k, "name": str|None}]
      signals: [{"name", "w", "signed", "init", "mod": driving module or None (input), "dom": comb|sync|None,
                 "src": [signal indices read], "lo","hi": driven bit range, "read_slice": bool}]
      ports: [[sig index, dir|None]]
      instances: [{"mod", "type", "name", "params", "attrs", "ins": [[pname, sig idx|const]], "outs": [[pname, sig idx]]}]
      mems: [{"mod", "w", "depth", "rd": sig, ...}]
    """
    nmod = rng.randrange(1, 8)
    # "collide" designs aim the two name generators at each other: clashing signal names are renamed to
    # <name>$<n>, unnamed sub-modules/instances are called <type>$<index>, and signals may be called either.
    collide = rng.choice(["foo", "Module", "a"]) if rng.random() < 0.25 else None
    cnames = [collide] * 3 + [f"{collide}${k}" for k in range(10)]
    modules = [{"parent": -1, "name": "top"}]
    for k in range(1, nmod):
        anon = rng.random() < (0.7 if collide else 0.25)
        modules.append({"parent": rng.randrange(0, k), "name": None if anon else rng.choice(["m1", "m2", "a", "sub", "x"])})
    nsig = rng.randrange(2, 12)
    signals = []
    weird = rng.random() < 0.04
    for i in range(nsig):
        name = rng.choice(cnames) if collide and rng.random() < 0.7 else rng.choice(NAMES)
        if rng.random() < 0.08:
            name = ""              # private
        if weird and rng.random() < 0.3:
            name = rng.choice(["sp ace", "ta\tb"])
        w = rng.choice([0, 1, 1, 2, 3, 4, 8])
        s = {"name": name, "w": w, "signed": w > 0 and rng.random() < 0.2, "init": rng.getrandbits(w) if w else 0,
             "mod": None, "dom": None, "src": [], "lo": 0, "hi": w, "op": "copy"}
        if i >= 2 and rng.random() < 0.7:
            s["mod"] = rng.randrange(nmod)
            s["dom"] = rng.choice(["comb", "comb", "sync"])
            s["src"] = rng.sample(range(i), rng.randrange(1, min(3, i) + 1))
            s["op"] = rng.choice(["copy", "add", "xor", "slice", "cat", "catcont"])
            if w >= 2 and rng.random() < 0.3:
                lo = rng.randrange(0, w)
                s["lo"], s["hi"] = lo, rng.randrange(lo + 1, w + 1)
        signals.append(s)
    ports = []
    for i, s in enumerate(signals):
        if s["name"] == "":
            continue
        if s["mod"] is None:
            if rng.random() < 0.85:
                ports.append([i, rng.choice(["i", None])])
        elif rng.random() < 0.6:
            ports.append([i, rng.choice(["o", None])])
    instances = []
    for k in range(rng.randrange(2, 7) if collide else rng.choice([0, 0, 1, 2])):
        params = {}
        for j in range(rng.randrange(0, 5)):
            kind = rng.choice(["int", "neg", "big", "str", "float", "const", "sconst"])
            params[f"P{j}"] = {"int": ["int", rng.randrange(0, 1000)], "neg": ["int", -rng.randrange(1, 1000)],
                               "big": ["int", rng.choice([2**31 - 1, 2**31, 2**32 - 1, 2**32, 2**40 + 5, -2**35, -2**31, -2**31 - 1, -2**31 - 5,
                                                        -(10**12), -2**63 - 1, 2**64 + 3, -(2**40 + 5)])], "str": ["str", rng.choice(STRS)],
                               "float": ["float", rng.choice([1.5, -0.25, 1e10, 3.0])],
                               "const": ["const", rng.getrandbits(5), 5, False],
                               "sconst": ["const", -rng.randrange(1, 8), 4, True]}[kind]
        attrs = {}
        for j in range(rng.randrange(0, 3)):
            attrs[f"A{j}"] = rng.choice([["str", rng.choice(STRS)], ["int", rng.randrange(0, 50)],
                                         ["int", rng.choice([-1, -7, 2**31, -2**31 - 5, -(10**12), 2**40 + 5])]])
        ins = []
        for j in range(rng.randrange(0, 3)):
            if rng.random() < 0.3:
                ins.append([f"i{j}", ["const", rng.getrandbits(3), 3]])
            else:
                ins.append([f"i{j}", ["sig", rng.randrange(nsig)]])
        outs = []
        for j in range(rng.randrange(0, 3)):
            # a fresh signal driven only by this instance
            signals.append({"name": f"inst{k}_o{j}", "w": rng.choice([1, 2, 5]), "signed": False, "init": 0,
                            "mod": "inst", "dom": None, "src": [], "lo": 0, "hi": 0, "op": "inst"})
            outs.append([f"o{j}", len(signals) - 1])
            sw = signals[-1]["w"]
            if sw >= 2 and rng.random() < 0.35:
                # the instance drives only the low bits; the rest of the signal is driven by logic of one module
                signals[-1]["inst_bits"] = rng.randrange(1, sw)
                signals[-1]["tail"] = [rng.randrange(nmod), rng.choice(["comb", "sync"]), rng.randrange(nsig)]
            if rng.random() < 0.5:
                ports.append([len(signals) - 1, "o"])
        itype, iname = rng.choice(["foo", "BAR", "prim.x"]), rng.choice(["u0", "u1", "a", None])
        if collide and rng.random() < 0.8:
            itype, iname = (collide if collide != "Module" else "foo"), None
        instances.append({"mod": rng.randrange(nmod) if not collide else rng.choice([0, 0, rng.randrange(nmod)]), "type": itype, "name": iname,
                          "params": params, "attrs": attrs, "ins": ins, "outs": outs})
    mems = []
    if rng.random() < 0.3:
        signals.append({"name": "memq", "w": 4, "signed": False, "init": 0, "mod": "mem", "dom": None, "src": [], "lo": 0, "hi": 0, "op": "mem"})
        mems.append({"mod": rng.randrange(nmod), "w": 4, "depth": rng.choice([1, 2, 3, 4]), "q": len(signals) - 1,
                     "addr": rng.randrange(nsig), "name": rng.choice(["mem", "a", "storage"]), "sync": rng.random() < 0.5})
        if rng.random() < 0.6:
            ports.append([len(signals) - 1, "o"])
    iob = []
    for _ in range(rng.choice([0, 0, 0, 1, 1, 2, 3])):
        # an I/O port whose bit ranges are buffered separately, possibly in different directions; several I/O
        # ports may share a name (pads created in a loop) or be called like a signal, and may meet in one module
        w = rng.choice([1, 2, 3, 4, 5])
        cuts = sorted(rng.sample(range(1, w), min(w - 1, rng.randrange(0, 3)))) if w > 1 else []
        bounds = [0] + cuts + [w]
        home = rng.randrange(nmod)
        parts = [[lo, hi, rng.choice(["i", "o", "io"]), home if rng.random() < 0.6 else rng.randrange(nmod), rng.randrange(nsig)]
                 for lo, hi in zip(bounds, bounds[1:]) if rng.random() < 0.9]
        entry = {"w": w, "parts": parts, "name": rng.choice(["pad", "pad", "pad", "a", "o", "led"]),
                 "raw": rng.random() < 0.5, "inst_uses": []}
        if rng.random() < 0.15:
            # pad bits wired straight to a port of a foreign instance; when they overlap a buffered range (or each
            # other) the pad bit is used twice and the design has to be refused
            for _u in range(rng.choice([1, 1, 2])):
                lo = rng.randrange(w)
                hi = rng.randrange(lo + 1, w + 1)
                entry["inst_uses"].append([lo, hi, rng.choice(["i", "o", "io"]), rng.randrange(nmod)])
        iob.append(entry)
    prints = []
    for _ in range(rng.choice([0, 0, 1, 2])):
        prints.append({"mod": rng.randrange(nmod), "dom": rng.choice(["comb", "sync"]), "kind": rng.choice(["print", "assert", "assume", "cover"]),
                       "text": rng.choice(STRS + ["{{braces}}", "100%"]), "sig": rng.randrange(nsig), "spec": rng.choice(["", "x", "08b", ">6d", "c" , "s"])})
    return {"modules": modules, "signals": signals, "ports": ports, "instances": instances, "mems": mems, "iob": iob, "prints": prints,
            "port_form": rng.choice(["auto", "auto", "mixed"])}


def build_stress(d):
    from amaranth.hdl import Module, Signal, Shape, Const, Cat, Instance, ClockDomain, IOPort
    from amaranth.hdl._ir import PortDirection
    from amaranth.lib.memory import Memory
    from amaranth.lib import io
    mods = []
    for k, md in enumerate(d["modules"]):
        mods.append(Module())
    for k, md in enumerate(d["modules"]):
        if k == 0:
            continue
        p = mods[md["parent"]]
        if md["name"] is None:
            p.submodules += mods[k]
        else:
            try:
                setattr(p.submodules, md["name"], mods[k])
            except NameError:
                p.submodules += mods[k]       # duplicate submodule name in one parent: add anonymously
    mods[0].domains.sync = ClockDomain("sync")
    sigs = []
    for s in d["signals"]:
        kw = {}
        if s["name"] != "":
            kw["name"] = s["name"]
        else:
            kw["name"] = ""
        sigs.append(Signal(Shape(s["w"], s["signed"]), init=s["init"] if not s["signed"] else 0, **kw))
    for i, s in enumerate(d["signals"]):
        if s["mod"] is None or not isinstance(s["mod"], int):
            continue
        srcs = [sigs[j] for j in s["src"]]
        op = s["op"]
        if op == "copy":
            e = srcs[0]
        elif op == "add":
            e = srcs[0] + (srcs[1] if len(srcs) > 1 else 1)
        elif op == "xor":
            e = srcs[0] ^ (srcs[-1])
        elif op == "slice":
            e = srcs[0][:max(1, len(srcs[0]) // 2)] if len(srcs[0]) else srcs[0]
        elif op == "catcont" and len(srcs) > 1 and len(srcs[0]) and len(srcs[1]) > len(srcs[0]):
            # the second piece continues the bit numbering of the first on another wire
            e = Cat(srcs[0], srcs[1][len(srcs[0]):])
        elif op == "catcont" and len(srcs) > 1 and len(srcs[0]) > 1 and len(srcs[1]) > 1:
            e = Cat(srcs[0][:1], srcs[1][1:])
        else:
            e = Cat(*srcs)
        tgt = sigs[i][s["lo"]:s["hi"]] if (s["lo"], s["hi"]) != (0, s["w"]) else sigs[i]
        mods[s["mod"]].d[s["dom"]] += tgt.eq(e)
    foreign = {}
    for inst in d["instances"]:
        kw = {}
        for n, p in inst["params"].items():
            kw["p_" + n] = Const(p[1], Shape(p[2], p[3])) if p[0] == "const" else p[1]
        for n, a in inst["attrs"].items():
            kw["a_" + n] = a[1]
        dirs = {}
        for n, v in inst["ins"]:
            kw["i_" + n] = Const(v[1], v[2]) if v[0] == "const" else sigs[v[1]]
            dirs[n] = "i"
        for n, j in inst["outs"]:
            cut = d["signals"][j].get("inst_bits")
            kw["o_" + n] = sigs[j] if cut is None else sigs[j][:cut]
            if cut is not None:
                tm, tdom, tsrc = d["signals"][j]["tail"]
                mods[tm].d[tdom] += sigs[j][cut:].eq(sigs[tsrc])
            dirs[n] = "o"
        foreign.setdefault(inst["type"], {}).update(dirs)
        obj = Instance(inst["type"], **kw)
        if inst["name"] is None:
            mods[inst["mod"]].submodules += obj
        else:
            try:
                setattr(mods[inst["mod"]].submodules, inst["name"], obj)
            except NameError:
                mods[inst["mod"]].submodules += obj
    for me in d["mems"]:
        mem = Memory(shape=me["w"], depth=me["depth"], init=list(range(me["depth"])))
        try:
            setattr(mods[me["mod"]].submodules, me["name"], mem)
        except NameError:
            mods[me["mod"]].submodules += mem
        wp = mem.write_port()
        rp = mem.read_port(domain="sync" if me["sync"] else "comb")
        a = sigs[me["addr"]]
        mods[me["mod"]].d.comb += [rp.addr.eq(a), wp.addr.eq(a), wp.data.eq(a), wp.en.eq(a[0] if len(a) else 0), sigs[me["q"]].eq(rp.data)]
    from amaranth.hdl import Print, Assert, Assume, Cover, Format
    for pr in d.get("prints", []):
        sg = sigs[pr["sig"]]
        spec = pr["spec"]
        if spec == "s" and len(sg) % 8:
            spec = "x"
        if spec == "c" and len(sg) > 21:
            spec = ""
        try:
            fmt = Format(pr["text"].replace("{", "{{").replace("}", "}}") + " {:" + spec + "}", sg)
        except ValueError:
            fmt = Format("{}", sg)
        mm = mods[pr["mod"]]
        if pr["kind"] == "print":
            mm.d[pr["dom"]] += Print(fmt)
        elif pr["kind"] == "assert":
            mm.d[pr["dom"]] += Assert(sg == 0, fmt)
        elif pr["kind"] == "assume":
            mm.d[pr["dom"]] += Assume(sg.any(), fmt)
        else:
            mm.d[pr["dom"]] += Cover(sg.all(), fmt)
    ioports = []
    for b in d["iob"]:
        port = IOPort(b["w"], name=b.get("name", "pad"))
        ioports.append(port)
        for lo, hi, dr, mod, src in b["parts"]:
            if b.get("raw"):
                # the buffer primitive placed directly in the module (no lib.io wrapper module around it)
                from amaranth.hdl._ir import IOBufferInstance
                n = hi - lo
                kw = {}
                if dr in ("o", "io"):
                    ov = Signal(n, name="padout")
                    mods[mod].d.comb += ov.eq(sigs[src])
                    kw["o"] = ov
                if dr == "io":
                    kw["oe"] = sigs[src][0] if len(sigs[src]) else Const(1, 1)
                if dr in ("i", "io"):
                    iv = Signal(n, name="padraw")
                    kw["i"] = iv
                    sink = Signal(n, name="padin")
                    mods[mod].d.sync += sink.eq(iv)
                mods[mod].submodules += IOBufferInstance(port[lo:hi], **kw)
                continue
            buf = io.Buffer(dr, io.SingleEndedPort(port[lo:hi], direction=dr))
            mods[mod].submodules += buf
            if dr in ("o", "io"):
                mods[mod].d.comb += buf.o.eq(sigs[src])
            if dr == "io":
                mods[mod].d.comb += buf.oe.eq(sigs[src][0] if len(sigs[src]) else 1)
            if dr in ("i", "io"):
                sink = Signal(hi - lo, name="padin")
                mods[mod].d.sync += sink.eq(buf.i)
    for b, port in zip(d["iob"], ioports):
        for lo, hi, dr, mod in b.get("inst_uses", ()):
            mods[mod].submodules += Instance("padcell", **{dr + "_pad": port[lo:hi]})
    ports = []
    DIR = {"i": PortDirection.Input, "o": PortDirection.Output, None: None}
    for j, dr in d["ports"]:
        ports.append((sigs[j], DIR[dr]))
    return mods[0], sigs, ports, ioports, foreign


def convert_stress(d):
    from amaranth.back import rtlil
    IO_WIRE_NAMES[:] = []
    top, sigs, ports, ioports, foreign = build_stress(d)
    plist = []
    for s, dr in ports:
        plist.append(s)
    if d.get("port_form") == "mixed":
        # a list mixing bare signals with (name, signal, direction) entries whose explicit name is the name of the
        # bare signal listed just before (the bare one has to be renamed, whatever the order)
        plist = []
        prev = None
        explicit = set()
        for k, (s, dr) in enumerate(ports):
            if k % 2 == 1 and prev is not None and prev != "" and prev not in explicit:
                plist.append((prev, s, dr))
                explicit.add(prev)            # (explicit names themselves have to be distinct)
            else:
                plist.append(s)
            prev = s.name
        if not ioports:
            return rtlil.convert(top, ports=plist, emit_src=False), foreign, sigs
    # explicit directions via dict when all names are distinct, else the list form
    names = [s.name for s, _ in ports]
    if len(set(names)) == len(names) and all(dr is not None for _, dr in ports) and not ioports:
        pd = {s.name: (s, dr) for s, dr in ports}
        return rtlil.convert(top, ports=pd, emit_src=False), foreign, sigs
    if not ioports:
        return rtlil.convert(top, ports=plist, emit_src=False), foreign, sigs
    # with I/O ports: the same steps as rtlil.convert(), keeping hold of the design so that the names its top-level
    # I/O ports ended up with (they are de-duplicated) are known to the structural checker
    from amaranth.hdl import IOPort
    from amaranth.hdl._ir import Fragment
    design = Fragment.get(top, None).prepare(ports=plist + ioports, hierarchy=("top",))
    IO_WIRE_NAMES[:] = ["\\" + name for (name, port, _dir) in design.ports if isinstance(port, IOPort)]
    text, _map = rtlil.convert_fragment(design, name="top", emit_src=False)
    return text, foreign, sigs


IO_WIRE_NAMES = []


def expected_param(p):
    """-> (kind, predicate on parsed Const)"""
    if p[0] == "int":
        v = p[1]
        if 0 <= v < 2**31 - 1:
            return "plain", lambda c: c.kind == "int" and c.value == v
        w = max(32, v.bit_length() + (1 if v < 0 else 0)) if v < 0 else max(32, v.bit_length())
        return ("signed" if v < 0 else "plain"), lambda c: c.kind == "bits" and c.as_int(signed=v < 0) == v
    if p[0] == "str":
        return "plain", lambda c: c.kind == "str" and c.value == p[1]
    if p[0] == "float":
        return "real", lambda c: c.kind == "str" and float(c.value) == p[1]
    v, w, s = p[1], p[2], p[3]
    return ("signed" if s else "plain"), lambda c: c.kind == "bits" and c.width == w and c.as_int(signed=s) == v


def check_instances(doc, d, sigs, out, ctx):
    import re
    cells = [(m, c) for m in doc.modules.values() for c in m.cells.values() if not c.type.startswith("$") and c.type not in doc.modules]
    padcells = [(m, c) for (m, c) in cells if c.type == "\\padcell"]
    cells = [(m, c) for (m, c) in cells if c.type != "\\padcell"]
    npad = sum(len(b.get("inst_uses", ())) for b in d.get("iob", ()))
    if len(padcells) != npad:
        out["violations"].append({"mechanism": "instance:count", "detail": dict(ctx, found=len(padcells), expected=npad, kind="pad cells")})
    for (m, c) in padcells:
        (pname, bits), = c.conns.items()
        if any(b[0] != "w" for b in bits):
            out["violations"].append({"mechanism": "instance:fidelity", "detail": dict(ctx, why=f"pad cell port {pname} is not connected to pad wires")})
    if len(cells) != len(d["instances"]):
        out["violations"].append({"mechanism": "instance:count", "detail": dict(ctx, found=len(cells), expected=len(d["instances"]))})
        return
    used = set()
    for inst in d["instances"]:
        cand = [(m, c) for (m, c) in cells if id(c) not in used and c.type == "\\" + inst["type"]
                and set(c.params) == set(inst["params"]) and set(c.conns) == {n for n, _ in inst["ins"]} | {n for n, _ in inst["outs"]}
                and (set(c.attrs) - {"src"}) == set(inst["attrs"])]
        # several identical candidates are fine: match the first that satisfies everything
        ok = False
        why = "no cell with this type/parameter/port set"
        for (m, c) in cand:
            why = None
            for n, p in inst["params"].items():
                kind, pred = expected_param(p)
                k, const = c.params[n]
                if k != kind or not pred(const):
                    why = f"parameter {n}: IR {p!r}, RTLIL {k} {const!r}"
                    break
            if why is None:
                for n, a in inst["attrs"].items():
                    const = c.attrs.get(n)
                    kind, pred = expected_param(a)
                    if const is None or not pred(const):
                        why = f"attribute {n}: IR {a!r}, RTLIL {const!r}"
                        break
            if why is None:
                for n, v in inst["ins"]:
                    bits = c.conns[n]
                    if v[0] == "const":
                        exp = [("c", str((v[1] >> i) & 1)) for i in range(v[2])]
                        if bits != exp:
                            why = f"input {n}: constant {v} connected as {bits}"
                            break
                    else:
                        sg = sigs[v[1]]
                        if len(bits) != len(sg):
                            why = f"input {n}: {len(bits)} bits for a {len(sg)}-bit signal"
                            break
                for n, j in inst["outs"]:
                    bits = c.conns[n]
                    sg = sigs[j]
                    want = d["signals"][j].get("inst_bits") or len(sg)
                    if len(bits) != want:
                        why = f"output {n}: {len(bits)} bits for {want} bits of a {len(sg)}-bit signal"
                        break
                    # (the instance output may land on an anonymous wire that reaches the signal's
                    # wire through the hierarchy; the one-driver rule is checked structurally)
                    if any(b[0] != "w" for b in bits):
                        why = f"output {n}: connected to a constant"
                        break
            if why is None:
                ok = True
                used.add(id(c))
                break
        out["extra"]["instances_checked"] = out["extra"].get("instances_checked", 0) + 1
        if not ok:
            out["violations"].append({"mechanism": "instance:fidelity", "detail": dict(ctx, instance=inst, why=why)})


def pad_bit_used_twice(d):
    """-> [iob index, bit] of a pad bit with two users (buffered ranges and instance connections), or None"""
    for k, b in enumerate(d["iob"]):
        seen = set()
        for use in list(b["parts"]) + list(b.get("inst_uses", ())):
            for bit in range(use[0], use[1]):
                if bit in seen:
                    return [k, bit]
                seen.add(bit)
    return None


def run_stress(rng, out):
    d = gen_stress(rng)
    ctx = {"stress": d}
    ws = any(any(ch.isspace() for ch in s["name"]) for s in d["signals"])
    twice = pad_bit_used_twice(d)
    if twice:
        out["hist"]["pad-bit-used-twice-planted"] = out["hist"].get("pad-bit-used-twice-planted", 0) + 1
    try:
        text, foreign, sigs = convert_stress(d)
        if twice:
            out["violations"].append({"mechanism": "pad-bit-used-twice-accepted", "detail": dict(ctx, pad_bit=twice)})
            return
    except Exception as ex:
        if exc_origin(ex) != "repo":
            raise
        from amaranth.hdl import DriverConflict
        if twice and isinstance(ex, DriverConflict):
            out["hist"]["pad-bit-used-twice-refused"] = out["hist"].get("pad-bit-used-twice-refused", 0) + 1
            out["evaluations"] += 1
            return
        out["violations"].append({"mechanism": f"conversion-exception:{type(ex).__name__}",
                                  "detail": dict(ctx, exception=repr(ex)[:300], whitespace_name=ws)})
        return
    out["evaluations"] += 1
    try:
        doc = P.parse(text)
    except P.ParseError as ex:
        out["violations"].append({"mechanism": "rtlil-does-not-parse", "detail": dict(ctx, error=str(ex)[:300], whitespace_name=ws)})
        return
    check_into(doc, out, ctx, foreign, io_wires=tuple(IO_WIRE_NAMES))
    check_instances(doc, d, sigs, out, ctx)
    names = [s["name"] for s in d["signals"] if s["name"]]
    clash = len(set(names)) != len(names)
    for k, v in (("name-clash", clash), ("instances", bool(d["instances"])), ("print-or-property-cells", bool(d.get("prints"))), ("memory", bool(d["mems"])), ("io-buffer", bool(d["iob"])),
                 ("anonymous-submodule", any(m["name"] is None for m in d["modules"][1:])), ("zero-width", any(s["w"] == 0 for s in d["signals"])),
                 ("private-name", any(s["name"] == "" for s in d["signals"]))):
        if v:
            out["hist"]["stress:" + k] = out["hist"].get("stress:" + k, 0) + 1
    if len(doc.modules) >= 2 or d["instances"] or clash:
        out["fps"].add(fp(d))
    if len(out["samples"]) < 1 and len(doc.modules) >= 3:
        out["samples"].append({"stress": {"modules": d["modules"], "signal_names": [s["name"] for s in d["signals"]]},
                               "rtlil_modules": list(doc.modules)})


def shards(tier, seed):
    n = 3200 if tier == "quick" else 32000
    return [{"seed": seed, "shard": i, "n": n // NSHARDS, "tier": tier} for i in range(NSHARDS)]


def run_shard(spec):
    out = {"evaluations": 0, "fps": set(), "hist": {}, "violations": [], "samples": [], "exhaustive": [],
           "extra": {"documents_checked": 0, "skipped_undef_bits": 0, "designs": 0, "documents": 0}}
    rng = derive_rng("c07", spec["seed"], spec["shard"])
    for _ in range(spec["n"]):
        nv = len(out["violations"])
        run_stress(rng, out)
        if len(out["violations"]) > 40:
            break
    # free diversity: the C04 co-simulation designs (structural check only)
    from .. import stmt as S, design as D, cosim
    from . import c02
    for n in range(spec["n"] // 8):
        g = S.Gen(rng, max_nest=rng.randint(1, 3), max_stmts=rng.randint(2, 10))
        sp = g.spec()
        design = D.scatter(sp, rng)
        try:
            bd = D.build(design)
            text = cosim.convert(bd)
            doc = P.parse(text)
        except P.ParseError as ex:
            out["violations"].append({"mechanism": "rtlil-does-not-parse", "detail": {"design": design, "error": str(ex)[:300]}})
            continue
        except Exception as ex:
            if exc_origin(ex) != "repo":
                raise
            out["violations"].append({"mechanism": f"conversion-exception:{type(ex).__name__}", "detail": {"design": design, "exception": repr(ex)[:300]}})
            continue
        out["evaluations"] += 1
        check_into(doc, out, {"design": design})
        if len(design["tree"]) >= 2:
            out["fps"].add(fp(design))
    out["monitors"] = dict(instrument.COUNTERS)
    out["fps"] = sorted(out["fps"])
    return out


def finalize(m, tier, seed):
    if not m["violations"] and m["extra"].get("documents_checked", 0) == 0:
        m["inconclusive"].append("no document was checked")


def replay(rec):
    import json
    d = rec["detail"]
    out = {"evaluations": 0, "fps": set(), "hist": {}, "violations": [], "samples": [], "extra": {}}
    if "stress" in d:
        try:
            text, foreign, sigs = convert_stress(d["stress"])
            doc = P.parse(text)
            check_into(doc, out, {}, foreign, io_wires=tuple(IO_WIRE_NAMES))
            check_instances(doc, d["stress"], sigs, out, {})
        except Exception as ex:
            out["violations"].append({"mechanism": type(ex).__name__, "detail": {"error": str(ex)[:300]}})
    elif "design" in d:
        from .. import design as D, cosim
        try:
            doc = P.parse(cosim.convert(D.build(d["design"])))
            check_into(doc, out, {})
        except Exception as ex:
            out["violations"].append({"mechanism": type(ex).__name__, "detail": {"error": str(ex)[:300]}})
    print(json.dumps(out["violations"][:3], indent=1, default=str)[:2500])
    print("replay:", "VIOLATION reproduced" if out["violations"] else "no violation on this tree")
    return 1 if out["violations"] else 0
