"""C14 Interface signatures, flipping and connect() preserve direction and data flow."""
import itertools

from .. import instrument
from ..common import derive_rng, fp, exc_origin, norm

PROPERTY = "C14"
LEVEL = "exploration"
RULE = ("random signature trees (depth <= 3/4, 1-4 members per level, dimensions (), (n), (n,m) with "
        "n,m in 0..3, In/Out at each level, port shapes unsigned/signed/range/shaped enum/StructLayout, "
        "initial values): flip().flip()==S; effective flow of every leaf after 0/1 flips == In-parity "
        "model; create() compliant; flatten visits every leaf once with its effective direction (plain, "
        "flipped signature, flipped interface); connect() on (S, flip S) pairs, k=3..4 fan-outs, constant "
        "members: simulated data flow from every output leaf to the matching input leaves, connect "
        "drives only input-leaf signals, all argument permutations give the same connection set; "
        "single-point corruptions (missing member, width, init, two outputs, mismatched constants, "
        "constant input vs signal output; at any array index) must raise ConnectionError; component "
        "metadata JSON leaves vs model and schema validation. distinct/non-trivial = distinct "
        "signature trees with >= 2 leaves and (a sub-signature or a dimension).")
ASSUMPTIONS = ["wiringref (this file): effective direction = member flow flipped once per enclosing In signature member and once per flip()",
               "driven-signal sets are read from the elaborated fragment's comb statements"]
REQUIRED_MONITORS = ["slot_commit"]
MIN_NONTRIVIAL = {"quick": 300, "thorough": 3000}
NSHARDS = 16


# ---- IR ----------------------------------------------------------------------------------------
def gen_shape(rng):
    k = rng.random()
    if k < 0.45:
        return ["u", rng.choice([0, 1, 1, 2, 3, 4, 8])]
    if k < 0.65:
        return ["s", rng.choice([1, 2, 3, 5])]
    if k < 0.78:
        a = rng.randrange(-5, 3)
        return ["range", a, a + rng.randrange(1, 12)]
    if k < 0.9:
        n = rng.randrange(1, 5)
        vals = sorted(rng.sample(range(0, 8), n))
        return ["enum", vals, 3]
    if rng.random() < 0.4:
        # a data.Struct class whose fields have defaults: a member without init= starts from those defaults
        fl = []
        for j in range(rng.randrange(1, 4)):
            fw, fs = rng.choice([1, 2, 3]), rng.random() < 0.3
            fl.append([f"f{j}", fw, fs, rng.randrange(-(1 << (fw - 1)), 1 << (fw - 1)) if fs else rng.randrange(0, 1 << fw)])
        return ["sclass", fl]
    return ["struct", [[f"f{j}", rng.choice([1, 2, 3]), rng.random() < 0.3] for j in range(rng.randrange(1, 4))]]


def shape_width_signed(sh):
    if sh[0] == "u":
        return sh[1], False
    if sh[0] == "s":
        return sh[1], True
    if sh[0] == "range":
        from ..instrument import range_shape
        return range_shape(range(sh[1], sh[2]))
    if sh[0] == "enum":
        return sh[2], False
    return sum(f[1] for f in sh[1]), False


def gen_init(rng, sh):
    # (a shaped enum without a zero member has no default initial value: always give one)
    if rng.random() < 0.4 and not (sh[0] == "enum" and 0 not in sh[1]):
        return None
    if sh[0] in ("u", "s"):
        w, s = shape_width_signed(sh)
        if w == 0:
            return 0
        return rng.randrange(-(1 << (w - 1)), 1 << (w - 1)) if s else rng.randrange(0, 1 << w)
    if sh[0] == "range":
        return rng.randrange(sh[1], sh[2])
    if sh[0] == "enum":
        return rng.choice(sh[1])
    return {f[0]: (rng.randrange(-(1 << (f[1] - 1)), 1 << (f[1] - 1)) if f[2] else rng.randrange(0, 1 << f[1])) for f in sh[1]}


def init_bits(sh, init):
    """Raw bit pattern of the initial value."""
    w, s = shape_width_signed(sh)
    if init is None and sh[0] != "sclass":
        return 0
    if sh[0] in ("struct", "sclass"):
        v = 0
        pos = 0
        for f in sh[1]:
            fname, fw = f[0], f[1]
            dflt = f[3] if sh[0] == "sclass" else 0          # (fields not mentioned keep the class's default)
            v |= ((init or {}).get(fname, dflt) & ((1 << fw) - 1)) << pos
            pos += fw
        return v
    return init & ((1 << w) - 1) if w else 0


def gen_sig(rng, depth, all_out=False, allow_zero_dim=True):
    members = []
    for k in range(rng.randrange(1, 5)):
        name = rng.choice(["a", "b", "data", "req", "ack", "x"]) + str(k)
        flow = "Out" if all_out else rng.choice(["In", "Out"])
        r = rng.random()
        dims = []
        if r < 0.25:
            dims = [rng.choice([0, 1, 2, 3] if allow_zero_dim else [1, 2, 3])]
        elif r < 0.35:
            dims = [rng.choice([1, 2, 3]), rng.choice([1, 2])]
        if depth > 0 and rng.random() < 0.35:
            sub = gen_sig(rng, depth - 1, all_out, allow_zero_dim)
            if rng.random() < 0.3:
                sub["via_flip"] = True
            members.append([name, flow, dims, "sig", sub])
        else:
            sh = gen_shape(rng)
            members.append([name, flow, dims, "port", {"shape": sh, "init": gen_init(rng, sh)}])
    return {"members": members}


_enum_cache = {}


def real_shape(sh):
    from amaranth.hdl import unsigned, signed
    from amaranth.lib import data, enum as aenum
    if sh[0] == "u":
        return unsigned(sh[1])
    if sh[0] == "s":
        return signed(sh[1])
    if sh[0] == "range":
        return range(sh[1], sh[2])
    if sh[0] == "enum":
        key = (tuple(sh[1]), sh[2])
        if key not in _enum_cache:
            ns = {"aenum": aenum}
            body = "\n".join(f"    M{v} = {v}" for v in sh[1])
            exec(f"class E{len(_enum_cache)}(aenum.Enum, shape={sh[2]}):\n{body}\nresult = E{len(_enum_cache)}", ns)
            _enum_cache[key] = ns["result"]
        return _enum_cache[key]
    if sh[0] == "sclass":
        key = repr(sh[1])
        if key not in _enum_cache:
            ns = {"__annotations__": {f[0]: (signed(f[1]) if f[2] else unsigned(f[1])) for f in sh[1]}}
            for f in sh[1]:
                ns[f[0]] = f[3]
            _enum_cache[key] = type(f"Rec{len(_enum_cache)}", (data.Struct,), ns)
        return _enum_cache[key]
    return data.StructLayout({f: (signed(w) if s else unsigned(w)) for f, w, s in sh[1]})


def real_init(sh, init):
    if init is None:
        return None
    if sh[0] == "enum":
        return real_shape(sh)(init)
    return init


SIG_CLASS = [None]       # None: wiring.Signature itself; else a user-defined subclass that keeps the default __eq__


def user_signature_class():
    from amaranth.lib.wiring import Signature

    class UserSignature(Signature):
        """what the documentation's examples do: a named signature class without an __eq__ of its own"""
    return UserSignature


def build_sig(ir):
    from amaranth.lib.wiring import In, Out
    from amaranth.lib import wiring
    Signature = SIG_CLASS[0] or wiring.Signature
    mem = {}
    for name, flow, dims, kind, payload in ir["members"]:
        F = In if flow == "In" else Out
        if kind == "port":
            m = F(real_shape(payload["shape"]), init=real_init(payload["shape"], payload["init"]))
        elif payload.get("via_flip"):
            # the member's description is itself a flipped signature: the sub-signature is written with every member
            # reversed and then flipped, which denotes the same directions
            inv = dict(payload, via_flip=False,
                       members=[[n_, ("Out" if f_ == "In" else "In"), d_, k_, p_] for (n_, f_, d_, k_, p_) in payload["members"]])
            m = F(build_sig(inv).flip())
        else:
            m = F(build_sig(payload))
        if dims:
            m = m.array(*dims)
        mem[name] = m
    return Signature(mem)


def model_leaves(ir, flipped=False, path=()):
    """-> [(path, 'In'|'Out', shape_ir, init)] in declaration order with dimensions expanded."""
    out = []
    for name, flow, dims, kind, payload in ir["members"]:
        eff = flow if not flipped else ("In" if flow == "Out" else "Out")
        for idx in itertools.product(*[range(d) for d in dims]):
            p = path + (name,) + tuple(idx)
            if kind == "port":
                out.append((p, eff, payload["shape"], payload["init"]))
            else:
                # an In signature member flips everything inside
                out.extend(model_leaves(payload, flipped=(eff == "In"), path=p))
    return out


def get_path(obj, path):
    for k in path:
        obj = obj[k] if isinstance(k, int) else getattr(obj, k)
    return obj


def set_path(obj, path, value):
    parent = get_path(obj, path[:-1])
    k = path[-1]
    if isinstance(k, int):
        parent[k] = value
    else:
        setattr(parent, k, value)


class V(Exception):
    def __init__(self, mech, **detail):
        self.mech, self.detail = mech, detail


def leaf_signal(value):
    """The underlying Signal of a leaf value (views wrap one)."""
    from amaranth.hdl import Value
    return Value.cast(value)


# ---- checks --------------------------------------------------------------------------------------
def check_structure(ir, out):
    from amaranth.lib import wiring
    from amaranth.lib.wiring import In, Out
    S = build_sig(ir)
    F = S.flip()
    if F.flip() != S or not (F.flip() == S):
        raise V("flip-flip-not-identity")
    if S.flip().flip().flip() != F:
        raise V("flip-cubed-not-flip")
    obj = S.create(path=("o",))
    reasons = []
    if not S.is_compliant(obj, reasons=reasons) or not S.is_compliant(obj):
        raise V("created-interface-not-compliant", reasons=reasons[:3])
    if ir["members"]:
        # flipping reverses every member, so a signature with members differs from its flip - also for a user-defined
        # signature class - and an interface of the flipped signature does not comply with the original
        if S == F or F == S or not (S != F):
            raise V("signature-equals-its-own-flip", user_signature_class=SIG_CLASS[0] is not None)
        if S.is_compliant(wiring.flipped(obj)) or F.is_compliant(obj):
            raise V("interface-of-the-flipped-signature-reported-compliant", user_signature_class=SIG_CLASS[0] is not None)
    for label, sig, o, flipped_ in (("plain", S, obj, False), ("flipped-signature", F, F.create(path=("o",)), True),
                                    ("flipped-interface", F, wiring.flipped(obj), True)):
        exp = model_leaves(ir, flipped=flipped_)
        r2 = []
        if not sig.is_compliant(o, reasons=r2):
            raise V("interface-not-compliant:" + label, reasons=r2[:3])
        got = list(sig.flatten(o))
        out["extra"]["leaves_checked"] += len(got)
        if [g[0] for g in got] != [e[0] for e in exp]:
            raise V("flatten-paths:" + label, got=[list(g[0]) for g in got][:12], expected=[list(e[0]) for e in exp][:12])
        for (gp, gm, gv), (ep, ef, esh, einit) in zip(got, exp):
            gf = "In" if gm.flow == In else "Out"
            if gf != ef:
                raise V("flatten-flow:" + label, path=list(gp), got=gf, expected=ef)
            w, s = shape_width_signed(esh)
            val = leaf_signal(gv)
            if len(val) != w:
                raise V("leaf-width:" + label, path=list(gp), got=len(val), expected=w)
            if getattr(val, "init", None) is not None and (val.init & ((1 << w) - 1) if w else 0) != init_bits(esh, einit):
                raise V("leaf-init:" + label, path=list(gp), got=val.init, expected=init_bits(esh, einit))
        if label == "flipped-interface":
            # same underlying signals as the unflipped object
            base = list(S.flatten(obj))
            for (gp, gm, gv), (bp, bm, bv) in zip(got, base):
                if leaf_signal(gv) is not leaf_signal(bv) and repr(leaf_signal(gv)) != repr(leaf_signal(bv)):
                    raise V("flipped-interface-different-signal", path=list(gp))
    return S


def frag_connections(m):
    """-> set of (lhs signal id, rhs repr) for comb statements of the elaborated module, and the lhs signals."""
    from amaranth.hdl._ir import Fragment
    frag = Fragment.get(m, None)
    pairs = set()
    lhs = []
    for dom, stmts in frag.statements.items():
        for st in stmts:
            for s in st._lhs_signals():
                lhs.append(s)
            pairs.add((dom, repr(st)))
    return pairs, lhs


def check_connect(ir, rng, out, k):
    """connect() on k interfaces: data flow, driven set, order independence."""
    from amaranth.hdl import Module, Signal, Const
    from amaranth.lib import wiring
    from amaranth.sim import Simulator
    S = build_sig(ir)
    if k == 2:
        objs = [S.create(path=("p",)), S.flip().create(path=("q",))]
        if rng.random() < 0.4:
            objs[1] = wiring.flipped(S.create(path=("q",)))
    else:
        objs = [S.create(path=("p",))] + [S.flip().create(path=(f"q{j}",)) for j in range(k - 1)]
    sigs = [S] + [S.flip()] * (k - 1)
    leaves = [list(sg.flatten(o)) for sg, o in zip(sigs, objs)]
    nleaf = len(leaves[0])
    if nleaf == 0:
        return
    from amaranth.lib.wiring import In, Out
    # group by path
    groups = []
    for j in range(nleaf):
        outs = [(i, leaves[i][j]) for i in range(k) if leaves[i][j][1].flow == Out]
        ins = [(i, leaves[i][j]) for i in range(k) if leaves[i][j][1].flow == In]
        groups.append((leaves[0][j][0], outs, ins))
    orders = list(itertools.permutations(range(k)))
    if len(orders) > 6:
        orders = [orders[0]] + rng.sample(orders[1:], 5)
    ref_pairs = None
    ref_m = None
    for oi, order in enumerate(orders):
        m = Module()
        try:
            if oi % 2 == 0:
                wiring.connect(m, *[objs[i] for i in order])
            else:
                wiring.connect(m, **{f"arg{i}": objs[i] for i in order})
        except wiring.ConnectionError as e:
            raise V("legal-connect-refused", k=k, order=list(order), message=str(e)[:300])
        pairs, lhs = frag_connections(m)
        out["extra"]["connects"] += 1
        if ref_pairs is None:
            ref_pairs, ref_m = pairs, m
            in_ids = {id(leaf_signal(l[2])) for (_, outs, ins) in groups for (_, l) in ins}
            out_ids = {id(leaf_signal(l[2])) for (_, outs, ins) in groups for (_, l) in outs}
            for s in lhs:
                if id(s) in out_ids or id(s) not in in_ids:
                    raise V("connect-drives-non-input", signal=repr(s))
        elif pairs != ref_pairs:
            raise V("connect-depends-on-argument-order", order=list(order),
                    only_here=sorted(map(str, pairs - ref_pairs))[:4], only_ref=sorted(map(str, ref_pairs - pairs))[:4])
    # simulation: every input leaf follows its output leaf
    sim = Simulator(ref_m)
    bad = []

    async def tb(ctx):
        for rnd in range(3):
            for (path, outs, ins) in groups:
                if len(outs) != 1:
                    continue
                osig = leaf_signal(outs[0][1][2])
                w = len(osig)
                v = rng.getrandbits(w) if w else 0
                ctx.set(osig, v)
                for (_, l) in ins:
                    got = ctx.get(leaf_signal(l[2])) & ((1 << w) - 1) if w else 0
                    out["evaluations"] += 1
                    if got != v:
                        bad.append(dict(path=list(path), driven=v, read=got))
                        return
    sim.add_testbench(tb)
    sim.run()
    if bad:
        raise V("input-leaf-does-not-follow-output", k=k, **bad[0])


def check_constants(ir, rng, out):
    """Constant members: equal constants connect silently (and are never driven); mismatches raise."""
    from amaranth.hdl import Module, Const
    from amaranth.lib import wiring
    from amaranth.lib.wiring import In, Out
    S = build_sig(ir)
    a, b = S.create(path=("p",)), S.flip().create(path=("q",))
    la, lb = list(S.flatten(a)), list(S.flip().flatten(b))
    cand = [j for j in range(len(la)) if len(leaf_signal(la[j][2])) > 0]
    if not cand:
        return
    j = rng.choice(cand)
    sg = leaf_signal(la[j][2])
    mode = rng.choice(["equal", "mismatch", "const-in-vs-signal-out"])
    spelling = "hdl.Const"
    if hasattr(la[j][2], "as_value"):
        # enum- and struct-shaped members: the constant is written the way such a value is written (a constant of
        # the shape-castable shape, which is a view / data.Const and not an hdl.Const, or a bare enum member)
        shape = la[j][2].shape()
        mk = lambda bits: shape.from_bits(bits) if rng.random() < 0.5 else Const(shape.from_bits(bits), shape)
        try:
            ca, cb = mk(sg.init), mk(sg.init)
            if mode == "mismatch":
                cb = mk(sg.init ^ 1)
        except Exception:
            return              # (no member with these bits)
        import enum as _enum
        kind = lambda c: "bare-enum-member" if isinstance(c, _enum.Enum) else type(c).__name__
        spelling = kind(ca) + "/" + kind(cb)
    else:
        ca, cb = Const(sg.init, sg.shape()), Const(sg.init, sg.shape())
        if mode == "mismatch":
            cb = Const(sg.init ^ 1, sg.shape())
    try:
        if mode == "const-in-vs-signal-out":
            # constant only on the input side
            if la[j][1].flow == In:
                set_path(a, la[j][0], ca)
            else:
                set_path(b, lb[j][0], cb)
        else:
            set_path(a, la[j][0], ca)
            set_path(b, lb[j][0], cb)
    except Exception:
        return
    m = Module()
    out["hist"]["const:" + mode] = out["hist"].get("const:" + mode, 0) + 1
    out["hist"]["const-written-as:" + spelling] = out["hist"].get("const-written-as:" + spelling, 0) + 1
    try:
        wiring.connect(m, a, b)
        ok = True
    except wiring.ConnectionError:
        ok = False
    if mode == "equal" and not ok:
        raise V("equal-constants-refused", path=list(la[j][0]), written_as=spelling)
    if mode != "equal" and ok:
        raise V("corruption-accepted:" + mode, path=list(la[j][0]))
    if ok:
        pairs, lhs = frag_connections(m)
        # nothing may be driven for this leaf; and constants can never be a target


def check_corruptions(ir, rng, out):
    from amaranth.hdl import Module, Signal
    from amaranth.lib import wiring
    from amaranth.lib.wiring import In, Out
    S = build_sig(ir)
    base = list(S.flatten(S.create(path=("p",))))
    if not base:
        return
    kinds = ["missing", "width", "init", "two-outputs", "flipped-subinterface"]
    for kind in kinds:
        a, b = S.create(path=("p",)), S.flip().create(path=("q",))
        if kind == "flipped-subinterface":
            # a sub-interface replaced by its flipped twin: every leaf inside it now has the wrong direction
            cand = [m for m in ir["members"] if m[3] != "port" and not m[2] and m[4]["members"]]
            if not cand:
                continue
            name = rng.choice(cand)[0]
            side = rng.choice([a, b])
            setattr(side, name, wiring.flipped(getattr(side, name)))
            out["hist"]["corruption:" + kind] = out["hist"].get("corruption:" + kind, 0) + 1
            for order in ((a, b), (b, a)):
                m = Module()
                out["evaluations"] += 1
                try:
                    wiring.connect(m, *order)
                except wiring.ConnectionError:
                    continue
                except Exception as e:
                    if exc_origin(e) != "repo":
                        raise
                    raise V("corruption-wrong-exception:" + kind, exception=type(e).__name__, member=name)
                raise V("corruption-accepted:" + kind, member=name, user_signature_class=SIG_CLASS[0] is not None)
            continue
        lb = list(S.flip().flatten(b))
        j = rng.randrange(len(lb))
        path = lb[j][0]
        val = leaf_signal(lb[j][2])
        w = len(val)
        try:
            if kind == "missing":
                # remove a top-level member (or one element of an array) on one side
                top = path[0]
                if len(path) > 1 and isinstance(path[1], int) and rng.random() < 0.5:
                    lst = getattr(b, top)
                    if len(lst) == 0:
                        continue
                    lst.pop()
                    if len(getattr(b, top)) != len(lst):
                        # (a flipped interface hands out a fresh list: remove the whole member instead)
                        delattr(b, top)
                else:
                    delattr(b, top)
            elif kind == "width":
                if hasattr(lb[j][2], "as_value"):
                    continue
                set_path(b, path, Signal(w + 1, init=val.init if val.init >= 0 else 0))
            elif kind == "init":
                if w == 0 or hasattr(lb[j][2], "as_value"):
                    continue
                set_path(b, path, Signal(val.shape(), init=(val.init ^ 1)))
            else:
                if not any(l[1].flow == Out for l in base):
                    continue
                b = S.create(path=("q",))
        except Exception as e:
            if exc_origin(e) == "repo":
                raise V("corruption-setup-exception:" + kind, exception=repr(e)[:200], path=list(path))
            continue
        out["hist"]["corruption:" + kind] = out["hist"].get("corruption:" + kind, 0) + 1
        idx = [p for p in path if isinstance(p, int)]
        if idx and max(idx) >= 1:
            out["hist"]["corruption-at-nonzero-index"] = out["hist"].get("corruption-at-nonzero-index", 0) + 1
        for order in ((a, b), (b, a)):
            m = Module()
            out["evaluations"] += 1
            try:
                wiring.connect(m, *order)
            except wiring.ConnectionError:
                continue
            except Exception as e:
                if exc_origin(e) != "repo":
                    raise
                raise V("corruption-wrong-exception:" + kind, exception=type(e).__name__, path=list(path))
            raise V("corruption-accepted:" + kind, path=list(path), order="ab" if order[0] is a else "ba")


def check_input_only_leaf(ir, rng, out):
    """A leaf that every connected interface only samples (In on all sides) is not wired, but its widths and
    initial values must still agree: equal -> accepted, width or initial-value mismatch -> ConnectionError."""
    from amaranth.hdl import Module
    from amaranth.lib import wiring
    from amaranth.lib.wiring import In, Out
    S = build_sig(ir)
    base = list(S.flatten(S.create(path=("p",))))
    if not base:
        return
    def only_outputs(sig):      # (declared members, including those of zero-length arrays, which have no leaves)
        return all((mb.flow == Out) if mb.is_port else only_outputs(mb.signature) for mb in sig.members.values())
    all_out = only_outputs(S)
    w = rng.randrange(1, 9)
    init = rng.getrandbits(w)
    nested = rng.random() < 0.4
    for kind in ("equal", "width", "init"):
        w2, init2 = w, init
        if kind == "width":
            w2 = w + rng.choice([-1, 1]) if w > 1 else w + 1
            init2 = init & ((1 << w2) - 1)
            if init2 != init:
                init2 = init = 0
        elif kind == "init":
            init2 = init ^ (1 << rng.randrange(w))
        k = 3 if all_out and rng.random() < 0.5 else 2     # (a third party needs S to be all outputs)

        sgn0 = rng.random() < 0.5
        mixw = rng.randrange(1, 6)

        def side(j, ww, ii):
            from amaranth.hdl import Shape
            mon = In(ww, init=ii)
            members = {"d": Out(S) if j == 0 else In(S), "mon": Out(wiring.Signature({"m": mon})) if nested else mon}
            # signatures written independently: the same leaf signed on one side and unsigned on the other (equal
            # widths connect; signedness may differ)
            members["mix"] = Out(Shape(mixw, sgn0)) if j == 0 else In(Shape(mixw, not sgn0))
            return wiring.Signature(members).create(path=(f"s{j}",))
        objs = [side(0, w, init)] + [side(j, w2 if j == k - 1 else w, init2 if j == k - 1 else init) for j in range(1, k)]
        out["hist"]["input-only-leaf:" + kind] = out["hist"].get("input-only-leaf:" + kind, 0) + 1
        orders = list(itertools.permutations(range(k)))
        for order in orders:
            m = Module()
            out["evaluations"] += 1
            try:
                wiring.connect(m, *[objs[i] for i in order])
                ok = True
            except wiring.ConnectionError as e:
                ok = False
                msg = str(e)
            except Exception as e:
                if exc_origin(e) != "repo":
                    raise
                raise V("input-only-leaf-wrong-exception:" + kind, exception=repr(e)[:200], order=list(order))
            if kind == "equal" and not ok:
                raise V("legal-connect-refused:input-only-leaf", message=msg[:300], order=list(order), k=k)
            if kind != "equal" and ok:
                raise V("corruption-accepted:" + kind + ":input-only-leaf", order=list(order), k=k, widths=[w, w2], inits=[init, init2], nested=nested)


def check_metadata(ir, out):
    from amaranth.lib import wiring
    S = build_sig(ir)

    class C(wiring.Component):
        def elaborate(self, platform):
            from amaranth.hdl import Module
            return Module()
    c = C(S)
    js = c.metadata.as_json()
    type(c.metadata).validate(js)
    exp = model_leaves(ir)
    got = []

    def walk(node, path):
        if isinstance(node, list):
            for i, n in enumerate(node):
                walk(n, path + (i,))
        elif node["type"] == "port":
            got.append((path, node))
        else:
            for name, sub in node["members"].items():
                walk(sub, path + (name,))
    for name, sub in js["interface"]["members"].items():
        walk(sub, (name,))
    if [g[0] for g in got] != [e[0] for e in exp]:
        raise V("metadata-leaf-set", got=[list(g[0]) for g in got][:10], expected=[list(e[0]) for e in exp][:10])
    for (gp, node), (ep, ef, esh, einit) in zip(got, exp):
        w, s = shape_width_signed(esh)
        out["extra"]["metadata_leaves"] += 1
        if esh[0] in ("u", "s", "range"):
            iv = norm(einit or 0, w, s)
        else:
            iv = init_bits(esh, einit)
        want = {"dir": "in" if ef == "In" else "out", "width": w, "signed": s, "init": str(iv),
                "name": "__".join(str(k) for k in ep)}
        for k, v in want.items():
            if node.get(k) != v:
                raise V("metadata-leaf-" + k, path=list(ep), got=node.get(k), expected=v)


def shards(tier, seed):
    n = 1600 if tier == "quick" else 20000
    return [{"seed": seed, "shard": i, "trees": n // NSHARDS, "depth": 3 if tier == "quick" else 4} for i in range(NSHARDS)]


def run_shard(spec):
    instrument.install_slot_invariant()
    out = {"evaluations": 0, "fps": set(), "hist": {}, "violations": [], "samples": [], "exhaustive": [],
           "extra": {"leaves_checked": 0, "connects": 0, "metadata_leaves": 0, "trees": 0}}
    rng = derive_rng("c14", spec["seed"], spec["shard"])
    for n in range(spec["trees"]):
        ir = gen_sig(rng, rng.randrange(0, spec["depth"]))
        out["extra"]["trees"] += 1
        SIG_CLASS[0] = user_signature_class() if rng.random() < 0.4 else None
        if SIG_CLASS[0] is not None:
            out["hist"]["trees-built-from-a-user-signature-class"] = out["hist"].get("trees-built-from-a-user-signature-class", 0) + 1
        steps = [("structure", lambda: check_structure(ir, out)),
                 ("metadata", lambda: check_metadata(ir, out)),
                 ("connect2", lambda: check_connect(ir, rng, out, 2)),
                 ("constants", lambda: check_constants(ir, rng, out)),
                 ("corruptions", lambda: check_corruptions(ir, rng, out)),
                 ("input-only-leaf", lambda: check_input_only_leaf(ir, rng, out))]
        if n % 4 == 0:
            ir3 = gen_sig(rng, rng.randrange(0, 3), all_out=True)
            steps.append(("connect-k", lambda: check_connect(ir3, rng, out, rng.choice([3, 4]))))
        for label, fn in steps:
            out["evaluations"] += 1
            try:
                fn()
            except V as v:
                out["violations"].append({"mechanism": v.mech, "detail": dict(v.detail, signature=ir if label != "connect-k" else ir3, stage=label)})
                break
            except Exception as e:
                if exc_origin(e) != "repo":
                    raise
                out["violations"].append({"mechanism": f"exception:{label}:{type(e).__name__}",
                                          "detail": {"signature": ir if label != "connect-k" else ir3, "exception": repr(e)[:300]}})
                break
        ml = model_leaves(ir)
        has_struct = any(m[3] == "sig" or m[2] for m in ir["members"])
        if len(ml) >= 2 and has_struct:
            out["fps"].add(fp(ir))
        dims = sum(1 for m in ir["members"] if m[2])
        out["hist"][f"members-with-dimensions:{min(dims, 3)}"] = out["hist"].get(f"members-with-dimensions:{min(dims, 3)}", 0) + 1
        if len(out["samples"]) < 1 and len(ml) >= 3 and has_struct:
            out["samples"].append({"signature": ir, "leaves": [[list(p), f] for p, f, _, _ in ml[:8]]})
    out["violations"].extend(instrument.VIOLATIONS)
    instrument.VIOLATIONS.clear()
    out["monitors"] = dict(instrument.COUNTERS)
    out["fps"] = sorted(out["fps"])
    return out


def replay(rec):
    import json
    from ..common import derive_rng
    d = rec["detail"]
    ir = d["signature"]
    out = {"evaluations": 0, "hist": {}, "extra": {"leaves_checked": 0, "connects": 0, "metadata_leaves": 0}}
    rng = derive_rng("c14-replay")
    hits = []
    for label, fn in (("structure", lambda: check_structure(ir, out)), ("connect2", lambda: check_connect(ir, rng, out, 2)),
                      ("corruptions", lambda: [check_corruptions(ir, rng, out) for _ in range(20)]),
                      ("input-only-leaf", lambda: [check_input_only_leaf(ir, rng, out) for _ in range(20)]),
                      ("constants", lambda: [check_constants(ir, rng, out) for _ in range(20)]),
                      ("metadata", lambda: check_metadata(ir, out))):
        try:
            fn()
        except V as v:
            hits.append((label, v.mech, v.detail))
        except Exception as e:
            hits.append((label, type(e).__name__, repr(e)[:200]))
    print(json.dumps(hits, default=str, indent=1)[:2000])
    print("replay:", "VIOLATION reproduced" if hits else "no violation on this tree")
    return 1 if hits else 0
