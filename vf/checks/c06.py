"""C06 Multiply-driven bits and combinational loops are rejected; legal designs are not."""
import itertools
import json

from .. import instrument
from ..common import derive_rng, fp, exc_origin

PROPERTY = "C06"
LEVEL = "exploration"
RULE = ("driver plans: hierarchies of 1-6 modules (sub-modules optionally wrapped in ResetInserter, EnableInserter or "
        "DomainRenamer), 1-4 signals of width 1-8, 2-6 drivers each a bit range assigned from a (module, domain in "
        "{comb, sync, fast}) pair or driven by an Instance output, a memory read port or an I/O buffer input; the "
        "assignment target is written as a plain slice, a slice of a wider slice, a slice of as_signed()/as_unsigned() "
        "of a wider slice, or a Cat of such targets (nesting <= 2); half are legal near-misses (bit-disjoint ranges "
        "from different modules/domains, repeated assignment from the same module and domain, adjacent ranges), half "
        "have a planted overlap; expected: driver-conflict error (DriverConflict, or the Module DSL's driver-driver "
        "SyntaxError) iff some bit has two different drivers. dependency plans: comb assignments over <= 14 signal "
        "bits through slices, Cat, ~ & | ^, Mux (data and select), If / If-Else, several assignments to the same bit "
        "in program order ('default, then override'), and word-level + / - / == / any(); the oracle computes the true "
        "bit-level dependency graph (carry chains: result bit k depends on operand bits <= k; an unconditional "
        "assignment or If/Else pair replaces what earlier assignments to that bit contributed) and the conservative "
        "one (word-level cells all-to-all, union over every assignment): a design cyclic in the true graph must raise "
        "CombinationalCycle, one acyclic in the conservative graph must convert; designs on which the two readings "
        "differ are counted and not judged. bit-ladder plans: bits of the same signals feed each other through "
        "per-bit operators along a random total order (acyclic by construction), half with one operand bit replaced "
        "by an arbitrary driven bit. enumerate: all driver plans of 2 drivers x a 3-bit signal x {same, different "
        "module} x {comb, sync, fast}^2 x {logic, instance, memory port, I/O buffer}. distinct/non-trivial = distinct "
        "plans with >= 2 drivers or >= 2 assignments.")
ASSUMPTIONS = ["a conditional assignment makes every assigned bit depend on every bit the condition depends on",
               "dynamic part-select targets and flip-flops clocked from their own outputs are not generated"]
REQUIRED_MONITORS = []
MIN_NONTRIVIAL = {"quick": 1000, "thorough": 10000}
NSHARDS = 16
DOMS = ["comb", "sync", "fast"]
FOREIGN = ["inst", "mem", "iob"]
WRAPS = ["reset", "enable", "rename"]


def classify(ex):
    from amaranth.hdl import DriverConflict
    from amaranth.hdl._nir import CombinationalCycle
    from amaranth.hdl import _dsl
    if isinstance(ex, DriverConflict):
        return "conflict"
    if isinstance(ex, _dsl.SyntaxError) and "river-driver conflict" in str(ex):
        return "conflict"
    if isinstance(ex, CombinationalCycle):
        return "cycle"
    return "other:" + type(ex).__name__


# ---- driver plans -----------------------------------------------------------------------------------
def gen_driver_plan(rng):
    nmod = rng.randrange(1, 7)
    tree = [-1] + [rng.randrange(0, k) for k in range(1, nmod)]
    nsig = rng.randrange(1, 5)
    widths = [rng.randrange(1, 9) for _ in range(nsig)]
    drivers = []
    want_conflict = rng.random() < 0.5
    for _ in range(rng.randrange(2, 7)):
        s = rng.randrange(nsig)
        lo = rng.randrange(widths[s])
        hi = rng.randrange(lo + 1, widths[s] + 1)
        kind = rng.choice(FOREIGN) if rng.random() < 0.15 else "logic"
        drivers.append({"sig": s, "lo": lo, "hi": hi, "mod": rng.randrange(nmod), "dom": rng.choice(DOMS), "kind": kind})
    # resolve: make the plan legal first (clip away overlaps of different drivers), then plant one
    def ident(d, k):
        return ("foreign", k) if d["kind"] != "logic" else (d["mod"], d["dom"])
    owner = {}
    legal = []
    for k, d in enumerate(drivers):
        bits = [b for b in range(d["lo"], d["hi"]) if owner.get((d["sig"], b), ident(d, k)) == ident(d, k)]
        # keep the longest contiguous run
        runs = []
        for b in bits:
            if runs and runs[-1][-1] == b - 1:
                runs[-1].append(b)
            else:
                runs.append([b])
        if not runs:
            continue
        run = max(runs, key=len)
        d = dict(d, lo=run[0], hi=run[-1] + 1)
        for b in run:
            owner[(d["sig"], b)] = ident(d, k)
        legal.append(d)
    wraps = [None] + [rng.choice(WRAPS) if rng.random() < 0.35 else None for _ in range(1, nmod)]
    plan = {"tree": tree, "widths": widths, "drivers": legal, "planted": None, "wraps": wraps}
    if want_conflict and legal:
        victim = rng.choice(legal)
        b = rng.randrange(victim["lo"], victim["hi"])
        lo = rng.randrange(max(0, b - 1), b + 1)
        hi = rng.randrange(b + 1, min(widths[victim["sig"]], b + 2) + 1)
        while True:
            nd = {"sig": victim["sig"], "lo": lo, "hi": hi, "mod": rng.randrange(nmod), "dom": rng.choice(DOMS),
                  "kind": rng.choice(FOREIGN) if rng.random() < 0.15 else "logic"}
            if nd["kind"] != "logic" or victim["kind"] != "logic" or (nd["mod"], nd["dom"]) != (victim["mod"], victim["dom"]):
                break
        plan["drivers"] = legal + [nd]
        plan["planted"] = len(legal)
        rng.shuffle(plan["drivers"])
    for d in plan["drivers"]:
        d["form"] = gen_form(rng, d["lo"], d["hi"], widths[d["sig"]], 2)
        if d["kind"] == "logic" and rng.random() < 0.15:
            # the target written as the low window of Cat(target, <an undriven input>): the window ends exactly on
            # the boundary between the two parts and the input is not touched
            d["form"] = ["catpad", d["form"]]
    return plan


def gen_form(rng, lo, hi, width, depth):
    """A way of writing the assignment target that denotes bits [lo, hi) of the signal: a plain slice, a slice of
    a (signedness cast of a) wider slice, or a concatenation of two such targets."""
    k = rng.random()
    if depth == 0 or k < 0.45:
        if lo % (hi - lo) == 0 and rng.random() < 0.35:
            return ["word"]          # word_select with a constant index
        return ["plain"]
    olo, ohi = rng.randrange(0, lo + 1), rng.randrange(hi, width + 1)
    if k < 0.7:
        return ["cast", rng.choice("su"), olo, ohi, gen_form(rng, olo, ohi, width, depth - 1)]
    if k < 0.85:
        return ["nest", olo, ohi, gen_form(rng, olo, ohi, width, depth - 1)]
    if hi - lo >= 2:
        mid = rng.randrange(lo + 1, hi)
        return ["cat", mid, gen_form(rng, lo, mid, width, depth - 1), gen_form(rng, mid, hi, width, depth - 1)]
    return ["plain"]


def build_target(sig, lo, hi, form):
    from amaranth.hdl import Cat
    if form[0] == "plain":
        return sig[lo:hi]
    if form[0] == "word":
        return sig.word_select(lo // (hi - lo), hi - lo)
    if form[0] == "cast":
        _, sgn, olo, ohi, sub = form
        base = build_target(sig, olo, ohi, sub)
        base = base.as_signed() if sgn == "s" else base.as_unsigned()
        return base[lo - olo:hi - olo]
    if form[0] == "nest":
        _, olo, ohi, sub = form
        return build_target(sig, olo, ohi, sub)[lo - olo:hi - olo]
    if form[0] == "cat":
        _, mid, f1, f2 = form
        return Cat(build_target(sig, lo, mid, f1), build_target(sig, mid, hi, f2))
    raise KeyError(form[0])


def plan_conflicts(plan):
    owner = {}
    for k, d in enumerate(plan["drivers"]):
        idn = ("foreign", k) if d["kind"] != "logic" else (d["mod"], d["dom"])
        for b in range(d["lo"], d["hi"]):
            o = owner.setdefault((d["sig"], b), idn)
            if o != idn:
                return True
    return False


def build_driver_plan(plan):
    from amaranth.hdl import Module, Signal, ClockDomain, Instance, Const, IOPort
    from amaranth.hdl import ResetInserter, EnableInserter, DomainRenamer
    from amaranth.hdl._mem import MemoryInstance, MemoryData
    from amaranth.hdl._ir import IOBufferInstance
    nmod = len(plan["tree"])
    mods = [Module() for _ in range(nmod)]
    sigs = [Signal(w, name=f"s{i}") for i, w in enumerate(plan["widths"])]
    src = Signal(8, name="src")
    ctl = Signal(name="ctl")
    ports = sigs + [src, ctl]
    for k, d in enumerate(plan["drivers"]):
        form = d.get("form", ["plain"])
        n = d["hi"] - d["lo"]
        if form[0] == "catpad":
            from amaranth.hdl import Cat
            tgt = Cat(build_target(sigs[d["sig"]], d["lo"], d["hi"], form[1]), src)[0:n]
        else:
            tgt = build_target(sigs[d["sig"]], d["lo"], d["hi"], form)
        if d["kind"] == "inst":
            mods[d["mod"]].submodules += Instance("prim", o_q=tgt, i_d=src)
        elif d["kind"] == "mem":
            mem = MemoryInstance(data=MemoryData(shape=n, depth=4, init=[]))
            mem.read_port(domain="comb" if d["dom"] == "comb" else d["dom"], addr=src[:2], data=tgt,
                          en=Const(1, 1) if d["dom"] == "comb" else ctl, transparent_for=())
            mods[d["mod"]].submodules += mem
        elif d["kind"] == "iob":
            pad = IOPort(n, name=f"pad{k}")
            ports.append(pad)
            mods[d["mod"]].submodules += IOBufferInstance(pad, i=tgt)
        else:
            mods[d["mod"]].d[d["dom"]] += tgt.eq(src[:n] + k)
    wraps = plan.get("wraps") or [None] * nmod
    for k in range(nmod - 1, 0, -1):
        sub = mods[k]
        w = wraps[k]
        if w == "reset":
            sub = ResetInserter({"sync": ctl, "fast": ctl})(sub)
        elif w == "enable":
            sub = EnableInserter({"sync": ctl, "fast": ctl})(sub)
        elif w == "rename":
            sub = DomainRenamer({"sync": "fast"})(sub)
        setattr(mods[plan["tree"][k]].submodules, f"m{k}", sub)
    mods[0].domains.sync = ClockDomain("sync")
    mods[0].domains.fast = ClockDomain("fast")
    # ports with explicit directions: a signal nobody drives is an input (and must stay undriven)
    from amaranth.hdl._ir import PortDirection
    driven = {d["sig"] for d in plan["drivers"]}
    pd = {}
    for i, sg in enumerate(sigs):
        pd[f"s{i}"] = (sg, PortDirection.Output if i in driven else PortDirection.Input)
    pd["src"] = (src, PortDirection.Input)
    pd["ctl"] = (ctl, PortDirection.Input)
    for p_ in ports[len(sigs) + 2:]:
        pd[p_.name] = (p_, None)
    return mods[0], pd


def run_driver_plan(plan, out, label="driver-plan"):
    from amaranth.back import rtlil
    exp = "conflict" if plan_conflicts(plan) else "accept"
    out["evaluations"] += 1
    try:
        top, ports = build_driver_plan(plan)
        rtlil.convert(top, ports=ports, emit_src=False)
        got = "accept"
    except Exception as ex:
        if exc_origin(ex) != "repo":
            raise
        got = classify(ex)
    key = f"{label}:{exp}->{got}"
    out["hist"][key] = out["hist"].get(key, 0) + 1
    if got != exp:
        mech = {("accept", "conflict"): "legal-bit-disjoint-drivers-rejected", ("conflict", "accept"): "multiply-driven-bit-accepted"}.get((exp, got), f"driver-plan-wrong-outcome:{exp}->{got}")
        inst = any(d["kind"] != "logic" for d in plan["drivers"])
        cast = any('"cast"' in json.dumps(d.get("form")) for d in plan["drivers"])
        wrapped = any(plan.get("wraps") or [])
        mech += ":with-instance-output" if inst else ""
        mech += ":cast-in-target" if cast else ""
        mech += ":transformed-module" if wrapped else ""
        out["violations"].append({"mechanism": mech, "detail": {"plan": plan, "expected": exp, "got": got}})
    for d in plan["drivers"]:
        hkey = "driver-kind:" + d["kind"] + ("/" + d.get("form", ["plain"])[0] if d["kind"] == "logic" else "")
        out["hist"][hkey] = out["hist"].get(hkey, 0) + 1
    for w in plan.get("wraps") or []:
        if w:
            out["hist"]["module-wrapped:" + w] = out["hist"].get("module-wrapped:" + w, 0) + 1
    if len(plan["drivers"]) >= 2:
        out["fps"].add(fp(plan))


def enum_driver_plans():
    for (lo1, hi1) in [(0, 1), (0, 2), (1, 3), (0, 3), (2, 3)]:
        for (lo2, hi2) in [(0, 1), (1, 2), (2, 3), (0, 3), (1, 3)]:
            for same_mod in (True, False):
                for d1 in DOMS:
                    for d2 in DOMS:
                        for k2 in ("logic",) + tuple(FOREIGN):
                            yield {"tree": [-1, 0], "widths": [3], "planted": None,
                                   "drivers": [{"sig": 0, "lo": lo1, "hi": hi1, "mod": 0, "dom": d1, "kind": "logic"},
                                               {"sig": 0, "lo": lo2, "hi": hi2, "mod": 0 if same_mod else 1, "dom": d2, "kind": k2}]}


# ---- dependency plans --------------------------------------------------------------------------------
def width_of(e, widths):
    op = e[0]
    if op in ("bits", "wbits"):
        return e[3] - e[2]
    if op == "const":
        return e[1]
    if op == "not":
        return width_of(e[1], widths)
    if op in ("and", "or", "xor"):
        return width_of(e[1], widths)
    if op == "cat":
        return sum(width_of(x, widths) for x in e[1])
    if op == "mux":
        return width_of(e[2], widths)
    if op in ("add", "sub"):
        return e[4] - e[3]
    if op in ("eq", "any"):
        return 1
    raise KeyError(op)


def deps(e, conservative):
    """-> list (one entry per result bit) of frozensets of source bits (sig, bit)."""
    op = e[0]
    if op in ("bits", "wbits"):
        return [frozenset([(e[1], b)]) for b in range(e[2], e[3])]
    if op == "const":
        return [frozenset()] * e[1]
    if op == "not":
        return deps(e[1], conservative)
    if op in ("and", "or", "xor"):
        a, b = deps(e[1], conservative), deps(e[2], conservative)
        return [x | y for x, y in zip(a, b)]
    if op == "cat":
        out = []
        for x in e[1]:
            out += deps(x, conservative)
        return out
    if op == "mux":
        s = frozenset().union(*deps(e[1], conservative)) if deps(e[1], conservative) else frozenset()
        a, b = deps(e[2], conservative), deps(e[3], conservative)
        return [s | x | y for x, y in zip(a, b)]
    if op in ("add", "sub"):
        a, b = deps(e[1], conservative), deps(e[2], conservative)
        n = max(len(a), len(b)) + 1
        allb = frozenset().union(*(a + b)) if (a + b) else frozenset()
        res = []
        for k in range(n):
            if conservative:
                res.append(allb)
            else:
                s = frozenset()
                for j in range(min(k, len(a) - 1) + 1 if a else 0):
                    s |= a[j]
                for j in range(min(k, len(b) - 1) + 1 if b else 0):
                    s |= b[j]
                res.append(s)
        return res[e[3]:e[4]]
    if op == "eq":
        a, b = deps(e[1], conservative), deps(e[2], conservative)
        return [frozenset().union(*(a + b)) if (a + b) else frozenset()]
    if op == "any":
        a = deps(e[1], conservative)
        return [frozenset().union(*a) if a else frozenset()]
    raise KeyError(op)


def build_expr(e, sigs):
    from amaranth.hdl import Const, Cat, Mux
    op = e[0]
    if op == "bits":
        return sigs[e[1]][e[2]:e[3]]
    if op == "wbits":
        # the same bits written as a word select with a constant index (still a bit-precise construct)
        n = e[3] - e[2]
        return sigs[e[1]].word_select(e[2] // n, n)
    if op == "const":
        return Const(e[2], e[1])
    if op == "not":
        return ~build_expr(e[1], sigs)
    if op == "and":
        return build_expr(e[1], sigs) & build_expr(e[2], sigs)
    if op == "or":
        return build_expr(e[1], sigs) | build_expr(e[2], sigs)
    if op == "xor":
        return build_expr(e[1], sigs) ^ build_expr(e[2], sigs)
    if op == "cat":
        return Cat(*[build_expr(x, sigs) for x in e[1]])
    if op == "mux":
        return Mux(build_expr(e[1], sigs), build_expr(e[2], sigs), build_expr(e[3], sigs))
    if op == "add":
        return (build_expr(e[1], sigs) + build_expr(e[2], sigs))[e[3]:e[4]]
    if op == "sub":
        return (build_expr(e[1], sigs) - build_expr(e[2], sigs))[e[3]:e[4]]
    if op == "eq":
        return build_expr(e[1], sigs) == build_expr(e[2], sigs)
    if op == "any":
        return build_expr(e[1], sigs).any()
    raise KeyError(op)


def gen_dep_plan(rng):
    nmod = rng.randrange(1, 4)
    tree = [-1] + [rng.randrange(0, k) for k in range(1, nmod)]
    nsig = rng.randrange(2, 5)
    widths = [rng.randrange(1, 5) for _ in range(nsig)]
    ninputs = rng.randrange(1, 3)          # the first signals are undriven inputs
    allbits = [(s, b) for s in range(nsig) for b in range(widths[s])]
    driven = set()
    assigns = []

    def rand_bits(n=None):
        s = rng.randrange(nsig)
        w = widths[s]
        n = rng.randrange(1, w + 1) if n is None else n
        if n > w:
            return ["const", n, rng.getrandbits(n)]
        lo = rng.randrange(0, w - n + 1)
        if lo % n == 0 and rng.random() < 0.4:
            return ["wbits", s, lo, lo + n]
        return ["bits", s, lo, lo + n]

    def rand_expr(n, depth):
        if depth == 0 or rng.random() < 0.3:
            return rand_bits(n)
        k = rng.random()
        if k < 0.15:
            return ["not", rand_expr(n, depth - 1)]
        if k < 0.4:
            return [rng.choice(["and", "or", "xor"]), rand_expr(n, depth - 1), rand_expr(n, depth - 1)]
        if k < 0.5 and n >= 2:
            cut = rng.randrange(1, n)
            return ["cat", [rand_expr(cut, depth - 1), rand_expr(n - cut, depth - 1)]]
        if k < 0.65:
            return ["mux", rand_expr(1, depth - 1), rand_expr(n, depth - 1), rand_expr(n, depth - 1)]
        if k < 0.85:
            opw = rng.randrange(max(1, n - 1), n + 2)
            a, b = rand_expr(opw, depth - 1), rand_expr(opw, depth - 1)
            lo = rng.randrange(0, opw + 1 - n + 1) if opw + 1 >= n else 0
            if lo + n > opw + 1:
                return rand_bits(n)
            return [rng.choice(["add", "sub"]), a, b, lo, lo + n]
        if n == 1:
            opw = rng.randrange(1, 4)
            return rng.choice([["eq", rand_expr(opw, depth - 1), rand_expr(opw, depth - 1)], ["any", rand_expr(opw, depth - 1)]])
        return rand_bits(n)
    owner = {}
    for _ in range(rng.randrange(1, 8)):
        s = rng.randrange(ninputs, nsig) if nsig > ninputs else None
        if s is None:
            break
        # a bit may be assigned several times ("default, then override"), always from the module that owns it
        lo = rng.randrange(widths[s])
        mod = owner.get((s, lo), rng.randrange(nmod))
        hi = lo + 1
        while hi < widths[s] and owner.get((s, hi), mod) == mod and rng.random() < 0.6:
            hi += 1
        for b in range(lo, hi):
            owner[(s, b)] = mod
        k = rng.random()
        cond = rand_expr(1, 1) if k < 0.45 else None
        if cond is not None and rng.random() < 0.35:
            # Switch/Case on a string pattern with don't-care positions (Default when there is an else branch)
            n = rng.randrange(1, 5)
            pat = "".join(rng.choice("01--") for _ in range(n))
            cond = ["case", rand_expr(n, rng.randrange(0, 2)), pat]
        a = {"tgt": [s, lo, hi], "expr": rand_expr(hi - lo, rng.randrange(0, 3)), "cond": cond, "mod": mod}
        if k < 0.12:
            a["else_expr"] = rand_expr(hi - lo, rng.randrange(0, 2))
        assigns.append(a)
    if rng.random() < 0.25:
        # a signal switched on itself: one of its bits is assigned under a Case whose pattern tests that very bit
        # (a loop through the condition) or leaves it as a don't-care (a loop only under the conservative reading)
        cands = [s for s in range(ninputs, nsig) if widths[s] >= 2]
        if cands:
            s = rng.choice(cands)
            w = widths[s]
            pat = "".join(rng.choice("01---") for _ in range(w))
            j = rng.randrange(w)
            mod = owner.get((s, j), rng.randrange(nmod))
            owner[(s, j)] = mod
            a = {"tgt": [s, j, j + 1], "expr": rand_expr(1, 0), "cond": ["case", ["bits", s, 0, w], pat], "mod": mod}
            if rng.random() < 0.3:
                a["else_expr"] = rand_expr(1, 0)
            assigns.append(a)
    if rng.random() < 0.5:
        # "default, then override": unconditional assignments placed before everything generated so far
        defaults = []
        for (s, b), mod in sorted(owner.items()):
            if rng.random() < 0.5:
                continue
            if defaults and defaults[-1]["tgt"][0] == s and defaults[-1]["tgt"][2] == b and defaults[-1]["mod"] == mod and rng.random() < 0.7:
                defaults[-1]["tgt"][2] = b + 1
            else:
                defaults.append({"tgt": [s, b, b + 1], "cond": None, "mod": mod})
        for d in defaults:
            d["expr"] = rand_expr(d["tgt"][2] - d["tgt"][1], rng.randrange(0, 2))
        assigns = defaults + assigns
    if rng.random() < 0.2:
        # a bidirectional I/O buffer: its fabric input i[k] depends combinationally on o[k] and on oe
        w = rng.randrange(1, 4)
        widths.append(w)
        nsig += 1
        ns = nsig - 1
        assigns.append({"iob": True, "tgt": [ns, 0, w], "expr": rand_expr(w, rng.randrange(0, 2)), "cond": rand_expr(1, rng.randrange(0, 2)),
                        "mod": rng.randrange(nmod)})
    return {"tree": tree, "widths": widths, "assigns": assigns}


def gen_ladder_plan(rng):
    """Bits of the same signals feeding each other through per-bit operators only (slices, Cat, ~ & | ^, Mux data
    and select, If conditions) along a random total order of all driven bits, so that no bit reaches itself; half
    of the plans then get one operand bit replaced by an arbitrary driven bit, which may or may not close a loop
    (the dependency oracle decides which)."""
    nmod = rng.randrange(1, 4)
    tree = [-1] + [rng.randrange(0, k) for k in range(1, nmod)]
    nsig = rng.randrange(2, 4)
    widths = [rng.randrange(1, 4)] + [rng.randrange(2, 9) for _ in range(1, nsig)]
    pool = [(s, b) for s in range(1, nsig) for b in range(widths[s])]
    rng.shuffle(pool)
    pos = {bit: k for k, bit in enumerate(pool)}
    inputs = [(0, b) for b in range(widths[0])]
    plant = rng.choice(pool) if rng.random() < 0.5 else None
    planted = [False]

    def pick(limit):
        """a source bit whose position in the order is below `limit`"""
        k = rng.randrange(-len(inputs), limit) if limit > 0 else rng.randrange(-len(inputs), 0)
        return inputs[k] if k < 0 else pool[k]

    def vec(bits):
        picks = []
        for bit in bits:
            if plant == bit and not planted[0] and rng.random() < 0.5:
                planted[0] = True
                picks.append(rng.choice(pool))
            else:
                picks.append(pick(pos[bit]))
        parts = []
        for (s, b) in picks:        # merge runs of consecutive bits into slices
            if parts and parts[-1][1] == s and parts[-1][3] == b:
                parts[-1][3] = b + 1
            else:
                parts.append(["bits", s, b, b + 1])
        for part in parts:
            if (part[2] % (part[3] - part[2])) == 0 and rng.random() < 0.3:
                part[0] = "wbits"
        return parts[0] if len(parts) == 1 else ["cat", parts]

    def expr(bits, depth):
        k = rng.random()
        if depth == 0 or k < 0.25:
            return vec(bits)
        if k < 0.4:
            return ["not", expr(bits, depth - 1)]
        if k < 0.7:
            return [rng.choice(["and", "or", "xor"]), expr(bits, depth - 1), expr(bits, depth - 1)]
        s, b = pick(min(pos[bit] for bit in bits))
        return ["mux", ["bits", s, b, b + 1], expr(bits, depth - 1), expr(bits, depth - 1)]
    assigns = []
    for s in range(1, nsig):
        mod = rng.randrange(nmod)
        lo = 0
        while lo < widths[s]:
            hi = rng.randrange(lo + 1, widths[s] + 1)
            bits = [(s, b) for b in range(lo, hi)]
            cond = None
            if rng.random() < 0.25:
                cs, cb = pick(min(pos[bit] for bit in bits))
                cond = ["bits", cs, cb, cb + 1]
            assigns.append({"tgt": [s, lo, hi], "expr": expr(bits, rng.randrange(0, 3)), "cond": cond,
                            "mod": mod if rng.random() < 0.7 else rng.randrange(nmod)})
            lo = hi
    rng.shuffle(assigns)
    return {"tree": tree, "widths": widths, "assigns": assigns, "ladder": True}


def cond_deps(cond, conservative):
    """Bits a condition depends on.  A Case pattern is written most significant bit first; under the true reading
    only the positions it cares about (0/1) matter, under the conservative one every bit of the tested value."""
    if cond is None:
        return frozenset()
    if cond[0] == "case":
        d = deps(cond[1], conservative)
        pat = cond[2]
        keep = [d[i] for i in range(len(d)) if conservative or pat[len(pat) - 1 - i] != "-"]
        return frozenset().union(*keep) if keep else frozenset()
    return frozenset().union(*deps(cond, conservative))


def graph(plan, conservative):
    """bit -> set of bits it depends on.  Conservative: the union over every assignment that mentions the bit.
    True: assignments are applied in program order; an unconditional assignment (or an If/Else pair) that covers
    the bit replaces what earlier assignments contributed, a conditional one adds to it."""
    g = {}
    for a in plan["assigns"]:
        s, lo, hi = a["tgt"]
        d = deps(a["expr"], conservative)
        c = cond_deps(a["cond"], conservative)
        e = deps(a["else_expr"], conservative) if a.get("else_expr") is not None else None
        for k, b in enumerate(range(lo, hi)):
            new = d[k] | c | (e[k] if e is not None else frozenset())
            if not conservative and (a["cond"] is None or e is not None):
                g[(s, b)] = set(new)
            else:
                g.setdefault((s, b), set()).update(new)
    return g


def cyclic(g):
    color = {}

    def dfs(n):
        color[n] = 1
        for m in g.get(n, ()):
            if color.get(m) == 1:
                return True
            if color.get(m) is None and dfs(m):
                return True
        color[n] = 2
        return False
    return any(color.get(n) is None and dfs(n) for n in list(g))


def build_dep_plan(plan):
    from amaranth.hdl import Module, Signal, IOPort
    from amaranth.hdl._ir import IOBufferInstance
    nmod = len(plan["tree"])
    mods = [Module() for _ in range(nmod)]
    for k in range(1, nmod):
        setattr(mods[plan["tree"][k]].submodules, f"m{k}", mods[k])
    sigs = [Signal(w, name=f"s{i}") for i, w in enumerate(plan["widths"])]
    extra_ports = []
    for a in plan["assigns"]:
        s, lo, hi = a["tgt"]
        m = mods[a["mod"]]
        if a.get("iob"):
            pad = IOPort(hi - lo, name="pad")
            extra_ports.append(pad)
            ov, oev = Signal(hi - lo, name="pad_o"), Signal(name="pad_oe")
            m.d.comb += [ov.eq(build_expr(a["expr"], sigs)), oev.eq(build_expr(a["cond"], sigs))]
            m.submodules += IOBufferInstance(pad, i=sigs[s], o=ov, oe=oev)
            continue
        if a["cond"] is None:
            m.d.comb += sigs[s][lo:hi].eq(build_expr(a["expr"], sigs))
        else:
            if a["cond"][0] == "case":
                with m.Switch(build_expr(a["cond"][1], sigs)):
                    with m.Case(a["cond"][2]):
                        m.d.comb += sigs[s][lo:hi].eq(build_expr(a["expr"], sigs))
                    if a.get("else_expr") is not None:
                        with m.Default():
                            m.d.comb += sigs[s][lo:hi].eq(build_expr(a["else_expr"], sigs))
                continue
            with m.If(build_expr(a["cond"], sigs)):
                m.d.comb += sigs[s][lo:hi].eq(build_expr(a["expr"], sigs))
            if a.get("else_expr") is not None:
                with m.Else():
                    m.d.comb += sigs[s][lo:hi].eq(build_expr(a["else_expr"], sigs))
    return mods[0], sigs + extra_ports


def ops_in(e, acc):
    if isinstance(e, list) and e and isinstance(e[0], str):
        acc.add(e[0])
        for x in e[1:]:
            if isinstance(x, list):
                if x and isinstance(x[0], list):
                    for y in x:
                        ops_in(y, acc)
                else:
                    ops_in(x, acc)
    return acc


def run_dep_plan(plan, out, label="dependency-plan"):
    from amaranth.back import rtlil
    t, c = cyclic(graph(plan, False)), cyclic(graph(plan, True))
    if t:
        exp = "cycle"
    elif not c:
        exp = "accept"
    else:
        out["hist"]["dependency-plan:contested-not-checked"] = out["hist"].get("dependency-plan:contested-not-checked", 0) + 1
        return
    out["evaluations"] += 1
    try:
        top, sigs = build_dep_plan(plan)
        rtlil.convert(top, ports=sigs, emit_src=False)
        got = "accept"
    except Exception as ex:
        if exc_origin(ex) != "repo":
            raise
        got = classify(ex)
    key = f"{label}:{exp}->{got}"
    out["hist"][key] = out["hist"].get(key, 0) + 1
    ops = set()
    for a in plan["assigns"]:
        ops_in(a["expr"], ops)
        if a.get("iob"):
            ops.add("bidirectional-io-buffer")
        if a["cond"] is not None and a["cond"][0] == "case":
            ops.add("switch-case-with-dont-care" if "-" in a["cond"][2] else "switch-case")
            ops_in(a["cond"][1], ops)
        elif a["cond"] is not None:
            ops.add("if-condition")
            ops_in(a["cond"], ops)
        if a.get("else_expr") is not None:
            ops.add("else-branch")
            ops_in(a["else_expr"], ops)
    seen = set()
    for a in plan["assigns"]:
        s_, lo_, hi_ = a["tgt"]
        bits = {(s_, b) for b in range(lo_, hi_)}
        if bits & seen:
            ops.add("reassigned-bit")
        seen |= bits
    if exp == "cycle":
        for o in ops:
            out["hist"]["cycle-design-uses:" + o] = out["hist"].get("cycle-design-uses:" + o, 0) + 1
    if got != exp:
        mech = {("accept", "cycle"): "acyclic-design-rejected-as-cycle", ("cycle", "accept"): "combinational-cycle-accepted"}.get((exp, got), f"dependency-plan-wrong-outcome:{exp}->{got}")
        if "mux" in ops:
            mech += ":through-mux"
        elif ops & {"add", "sub", "eq", "any"}:
            mech += ":through-word-level-operator"
        out["violations"].append({"mechanism": mech, "detail": {"plan": plan, "expected": exp, "got": got}})
    if len(plan["assigns"]) >= 2:
        out["fps"].add(fp(plan))


def run_array_reach(out):
    """Arrays with more elements than their index can address: the elements beyond the reach of the index are neither
    driven by an assignment through the array nor inputs of a read through it.  Another module driving element j
    conflicts iff j is reachable; element j computed from a read of the same array is a loop iff j is reachable."""
    import warnings
    from amaranth.hdl import Module, Signal, Array, DriverConflict
    from amaranth.hdl._nir import CombinationalCycle
    from amaranth.back import rtlil
    for k in (1, 2):
        for n in range(2, 7):
            for j in range(n):
                reachable = j < (1 << k)
                for mode in ("second-driver", "read-feeds-element"):
                    top, sub = Module(), Module()
                    top.submodules.sub = sub
                    idx, x = Signal(k, name="idx"), Signal(name="x")
                    elems = [Signal(name=f"e{i}") for i in range(n)]
                    with warnings.catch_warnings():
                        warnings.simplefilter("ignore")
                        if mode == "second-driver":
                            top.d.comb += Array(elems)[idx].eq(x)
                            sub.d.comb += elems[j].eq(~x)
                            exp = "conflict" if reachable else "accept"
                        else:
                            rd = Signal(name="rd")
                            top.d.comb += rd.eq(Array(elems)[idx])
                            sub.d.comb += elems[j].eq(~rd)
                            exp = "cycle" if reachable else "accept"
                        out["evaluations"] += 1
                        try:
                            rtlil.convert(top, ports=[idx, x] + elems, emit_src=False)
                            got = "accept"
                        except Exception as ex:
                            if exc_origin(ex) != "repo":
                                raise
                            got = classify(ex)
                    key = f"array-reach:{mode}:{exp}->{got}"
                    out["hist"][key] = out["hist"].get(key, 0) + 1
                    if got != exp:
                        out["violations"].append({"mechanism": f"array-element-beyond-index-reach:{mode}:{exp}->{got}",
                                                  "detail": {"index_bits": k, "elements": n, "element": j, "reachable": reachable}})
                    out["fps"].add(fp(["array-reach", k, n, j, mode]))


def shards(tier, seed):
    n = 16000 if tier == "quick" else 320000
    specs = [{"kind": "sample", "seed": seed, "shard": i, "n": n // NSHARDS} for i in range(NSHARDS)]
    specs.append({"kind": "enum"})
    return specs


def run_shard(spec):
    out = {"evaluations": 0, "fps": set(), "hist": {}, "violations": [], "samples": [], "exhaustive": [], "extra": {}}
    if spec["kind"] == "enum":
        for plan in enum_driver_plans():
            run_driver_plan(plan, out, label="enum-driver-plan")
        run_array_reach(out)
        out["exhaustive"].append("2 drivers x 3-bit signal x {same, different module} x {comb, sync, fast}^2 x {logic, instance output}")
    else:
        rng = derive_rng("c06", spec["seed"], spec["shard"])
        for k in range(spec["n"]):
            if k % 2 == 0:
                plan = gen_driver_plan(rng)
                run_driver_plan(plan, out)
            elif k % 4 == 1:
                plan = gen_ladder_plan(rng)
                run_dep_plan(plan, out, label="bit-ladder-plan")
            else:
                plan = gen_dep_plan(rng)
                if plan["assigns"]:
                    run_dep_plan(plan, out)
            if len(out["samples"]) < 1 and k > 10 and k % 2 == 1 and len(plan["assigns"]) >= 2:
                out["samples"].append({"dependency_plan": plan, "true_cycle": cyclic(graph(plan, False)),
                                       "conservative_cycle": cyclic(graph(plan, True))})
            if len(out["violations"]) > 40:
                break
    out["monitors"] = dict(instrument.COUNTERS)
    out["fps"] = sorted(out["fps"])
    return out


def finalize(m, tier, seed):
    h = m["hist"]
    if not m["violations"]:
        for k in ("driver-plan:conflict->conflict", "driver-plan:accept->accept", "dependency-plan:cycle->cycle", "dependency-plan:accept->accept",
                  "bit-ladder-plan:cycle->cycle", "bit-ladder-plan:accept->accept"):
            if h.get(k, 0) == 0:
                m["inconclusive"].append(f"outcome class never observed: {k}")


def replay(rec):
    import json
    d = rec["detail"]
    out = {"evaluations": 0, "fps": set(), "hist": {}, "violations": []}
    if "drivers" in d["plan"]:
        run_driver_plan(d["plan"], out)
    else:
        run_dep_plan(d["plan"], out, label="bit-ladder-plan" if d["plan"].get("ladder") else "dependency-plan")
    print(json.dumps(out["violations"][:2], indent=1, default=str)[:2500])
    print("replay:", "VIOLATION reproduced" if out["violations"] else "no violation on this tree")
    return 1 if out["violations"] else 0
