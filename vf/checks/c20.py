"""C20 Print, Assert and Format match Python formatting at the right instants."""
import contextlib
import io
import itertools

from .. import expr as X
from .. import stmt as S
from .. import exprsim, instrument
from ..common import derive_rng, fp, corner_values, value_range, norm, exc_origin
from . import c02

PROPERTY = "C20"
LEVEL = "exploration"
RULE = ("format: the spec grammar fill{none,' ',*,0,x} x align{none,<,>,=} x sign{none,+,-,' '} x # x 0 "
        "x width{none,1,5,12} x _ x type{none,b,o,d,x,X,c,s} enumerated completely (plus specs outside "
        "the grammar) x shapes {u0,u1,u4,u8,u16,u24,u32,s1,s5,s8} x corner/random values; every accepted "
        "spec is simulated in a sync Print and compared with str.format; acceptance compared with "
        "Python's own verdict. timing: random sync programs with Print/Assert/Assume under nested "
        "control flow, stepped edge by edge with stdout captured per step. messages: hand-written monitors in a "
        "domain clocked on either edge with Print(*args, sep, end) over plain strings, values, Format objects "
        "with 0-3 fields, literal braces and nested Formats, Assert/Assume on arbitrary expressions "
        "(complements, casts, arithmetic; zero in their own shape or not) with str/Format/no message, under If; "
        "text, instant (active edge only) and stop compared at every event. non-trivial: accepted spec "
        "with a non-empty option, or a program with a print/assert under a conditional; distinct by "
        "(spec, shape) / program skeleton.")
ASSUMPTIONS = ["oracle = Python format() on the integer in its shape; 'c' values restricted to valid non-surrogate code points; "
               "'s' oracle = little-endian bytes, NULs dropped, UTF-8 decoded, formatted with the spec minus s (printable ASCII and multi-byte UTF-8 texts)",
               "Amaranth being stricter than Python for c/s (extra rejections) is not a violation"]
REQUIRED_MONITORS = ["slot_commit"]
MIN_NONTRIVIAL = {"quick": 500, "thorough": 3000}
NSHARDS = 16
SEP = "\x1e"

SHAPES = [(0, False), (1, False), (4, False), (8, False), (16, False), (24, False), (32, False),
          (1, True), (5, True), (8, True)]


def grammar_specs():
    fills = ["", " ", "*", "0", "x"]
    aligns = ["", "<", ">", "="]
    signs = ["", "+", "-", " "]
    for fill, align, sign, alt, zero, width, grp, typ in itertools.product(
            fills, aligns, signs, ["", "#"], ["", "0"], ["", "1", "5", "12"], ["", "_"],
            ["", "b", "o", "d", "x", "X", "c", "s"]):
        if fill and not align:
            continue    # a fill character requires an alignment in the grammar
        yield f"{fill}{align}{sign}{alt}{zero}{width}{grp}{typ}", True
    for s in ["^5", "*^8d", ",", "10,d", "n", "5n", ".3", "8.3d", "e", ".2f", "%", "z", "zd", "=", "<",
              "+", "q", "dd", "5 5", "b_", "_,", "__", "0_0", "#_#", "!r", "<<5", "05.1x", "c5", "s8",
              "xX", "+-", "- ", "##", "00"]:
        yield s, False


def py_format(v, shape, spec):
    """Python's verdict: ('ok', text) or ('err', exception type name)."""
    try:
        if spec.endswith("s"):
            w = shape[0]
            b = bytes(x for x in (v & ((1 << w) - 1)).to_bytes((w + 7) // 8, "little") if x)
            return "ok", format(b.decode(), spec[:-1])
        return "ok", format(v, spec)
    except (ValueError, OverflowError, UnicodeDecodeError) as e:
        return "err", type(e).__name__


def values_for(shape, spec, rng):
    w, s = shape
    if spec.endswith("c"):
        return [v for v in (0x41, 0x7e, 0x20, 0xe9, 0x4e2d, 0x1f600) if v < (1 << w)] or ([1] if w == 1 else [0])[:w + 1]
    if spec.endswith("s"):
        out = []
        for txt in ("", "A", "hi", "xyz!", "Ab c", "\u00e9", "\u2713", "\u00b5s", "\u00e9a", "a\u00e9"):
            b = txt.encode()
            if len(b) * 8 <= w:
                out.append(int.from_bytes(b, "little"))
        return out or [0]
    return corner_values(w, s, rng, 2)[:10]


def run_format_batch(shape, specs, rng, out, wrap=None):
    """wrap: None | 'inv' | 'as_signed' | 'as_unsigned' | 'neg' — the printed value is that operator
    applied to the signal (values whose compiled form is not normalised, cf. C01)."""
    from amaranth.hdl import Module, Signal, Shape, ClockDomain, Print, Format
    from amaranth.sim import Simulator
    m = Module()
    cd = ClockDomain("sync", reset_less=True)
    m.domains.sync = cd
    sig0 = Signal(Shape(*shape), name="v")
    shape0 = shape
    ir = ["sig", 0] if wrap is None else [wrap, ["sig", 0]]
    try:
        shape = X.ref_shape(ir, [shape0])
    except X.IllFormed:
        return
    sig = X.build(ir, [sig0])
    w, s = shape
    out["hist"][f"printed-value:{wrap or 'signal'}"] = out["hist"].get(f"printed-value:{wrap or 'signal'}", 0) + 1
    accepted = []
    for spec, in_grammar in specs:
        out["evaluations"] += 1
        try:
            f = Format("{:" + spec + "}", sig)
            ok = True
        except ValueError:
            ok = False
        except Exception as ex:
            if exc_origin(ex) != "repo":
                raise
            out["violations"].append({"mechanism": f"format-construct-exception:{type(ex).__name__}",
                                      "detail": {"spec": spec, "shape": list(shape), "exception": repr(ex)}})
            continue
        # Python's verdict on a representative legal value
        vals = values_for(shape, spec, rng)
        pv = py_format(vals[0], shape, spec)[0]
        typ = spec[-1:] if spec[-1:] in "bodxXcs" else ""
        key = ("py-valid" if pv == "ok" else "py-invalid") + ("/accepted" if ok else "/rejected")
        out["hist"][key] = out["hist"].get(key, 0) + 1
        if ok and pv != "ok":
            out["violations"].append({"mechanism": "invalid-spec-accepted",
                                      "detail": {"spec": spec, "shape": list(shape), "python": py_format(vals[0], shape, spec)[1]}})
            continue
        if not ok and pv == "ok" and in_grammar and typ not in ("c", "s"):
            out["violations"].append({"mechanism": "valid-spec-rejected",
                                      "detail": {"spec": spec, "shape": list(shape)}})
        if ok:
            m.d.sync += Print(f, end=SEP)
            accepted.append((spec, vals))
            if spec:
                out["fps"].add(fp(["fmt", spec, list(shape)]))
    if not accepted:
        return
    sim = Simulator(m)
    nvals = max(len(v) for _, v in accepted)

    async def tb(ctx):
        for k in range(nvals):
            # every print shares the signal: iterate the union of value lists
            allv = sorted({v[k % len(v)] for _, v in accepted})
            for v in allv:
                if wrap is not None:
                    # choose the leaf value so that the printed expression takes the value v
                    cands = [x for x in value_range(*shape0) if X.ref_eval(ir, [shape0], [x]) == v] \
                        if shape0[0] <= 12 else []
                    if not cands:
                        continue
                    ctx.set(sig0, cands[0])
                else:
                    ctx.set(sig0, v)
                buf = io.StringIO()
                with contextlib.redirect_stdout(buf):
                    ctx.set(cd.clk, 1)
                ctx.set(cd.clk, 0)
                parts = buf.getvalue().split(SEP)
                if len(parts) != len(accepted) + 1 or parts[-1] != "":
                    out["violations"].append({"mechanism": "print-count-mismatch",
                                              "detail": {"shape": list(shape), "expected": len(accepted), "got": len(parts) - 1}})
                    return
                for (spec, _), got in zip(accepted, parts):
                    st, exp = py_format(norm(v, w, s), shape, spec)
                    out["extra"]["prints_checked"] += 1
                    if st != "ok":
                        continue   # value-dependent Python error (e.g. chr out of range): not generated
                    if got != exp and len(out["violations"]) < 30:
                        out["violations"].append({"mechanism": "print-text-mismatch:" + (spec[-1:] if spec[-1:] in "bodxXcs" else "none"),
                                                  "detail": {"spec": spec, "shape": list(shape), "value": v,
                                                             "simulated": got, "python": exp}})
    sim.add_testbench(tb)
    try:
        sim.run()
    except Exception as ex:
        if exc_origin(ex) != "repo":
            raise
        out["violations"].append({"mechanism": f"print-simulation-exception:{type(ex).__name__}",
                                  "detail": {"shape": list(shape), "specs": [a for a, _ in accepted][:10], "exception": repr(ex)[:300]}})


# ------------------------------------------------------------------------------------------------
# timing
# ------------------------------------------------------------------------------------------------

def insert_effects(rng, spec_d, readable_n):
    """Insert sync print/assert statements at random places of the statement tree."""
    counter = [0]

    def cond_expr():
        k = rng.random()
        i = rng.randrange(readable_n)
        if k < 0.55:
            return ["ne", ["sig", i], ["const", rng.choice([0, 1, 3, -1])]]   # mostly true
        if k < 0.8:
            return ["bool", ["sig", i]]
        return ["le", ["sig", i], ["sig", rng.randrange(readable_n)]]

    def walk(stmts, depth):
        new = []
        for st in stmts:
            if rng.random() < 0.25:
                new.append(effect(depth))
            if st[0] == "if":
                st = ["if", [[c, walk(b, depth + 1)] for c, b in st[1]], walk(st[2], depth + 1) if st[2] is not None else None]
            elif st[0] == "switch":
                st = ["switch", st[1], [[p, walk(b, depth + 1)] for p, b in st[2]]]
            elif st[0] == "fsm":
                st = ["fsm", st[1], [[n, walk(b, depth + 1)] for n, b in st[2]]]
            new.append(st)
        if rng.random() < 0.3:
            new.append(effect(depth))
        return new

    def effect(depth):
        counter[0] += 1
        tag = counter[0]
        if rng.random() < 0.65:
            spec = rng.choice(["", "d", "x", "04x", "+d", "b", ">6", "#o"])
            return ["print", "sync", ["sig", rng.randrange(readable_n)], spec, tag, depth]
        return ["assert", "sync", cond_expr(), rng.choice(["Assert", "Assert", "Assume"]), tag,
                ["sig", rng.randrange(readable_n)], rng.random() < 0.7, depth]

    spec_d["stmts"] = walk(spec_d["stmts"], 0)
    return counter[0]


def build_effect(spec, b, st):
    from amaranth.hdl import Print, Format, Assert, Assume
    m = b.m
    if st[0] == "print":
        m.d.sync += Print(Format("P%d={:%s};" % (st[4], st[3]), X.build(st[2], b.sigs)), end="")
    else:
        fn = Assert if st[3] == "Assert" else Assume
        if st[6]:
            m.d.sync += fn(X.build(st[2], b.sigs), Format("A%d:{:d}" % st[4], X.build(st[5], b.sigs)))
        else:
            m.d.sync += fn(X.build(st[2], b.sigs))


def expected_effects(spec, effects):
    """-> (stdout text, failure message or None) for one clock edge, in program order."""
    text = []
    for st, vals in effects:
        if st[0] == "print":
            v = X.ref_eval(st[2], spec.env, vals)
            text.append(("P%d={:%s};" % (st[4], st[3])).format(v))
        else:
            c = X.ref_eval(st[2], spec.env, vals)
            if c == 0:
                kind = "Assertion" if st[3] == "Assert" else "Assumption"
                msg = f"{kind} violated"
                if st[6]:
                    msg += ": " + ("A%d:{:d}" % st[4]).format(X.ref_eval(st[5], spec.env, vals))
                return "".join(text), msg
    return "".join(text), None


def run_timing_program(spec, steps, out):
    from amaranth.hdl import Cat
    from amaranth.sim import Simulator
    try:
        b = S.build_module(spec, extra=build_effect)
        sim = Simulator(b.m)
    except Exception as ex:
        if exc_origin(ex) != "repo":
            raise
        out["violations"].append({"mechanism": f"timing-build-exception:{type(ex).__name__}",
                                  "detail": {"spec": spec.d, "exception": repr(ex)[:300]}})
        return
    ref = S.RefState(spec)
    ins = b.sigs[:spec.ni]
    incat = Cat(*ins)
    ienv = [x[:2] for x in spec.inputs]
    nbits = sum(w for w, s in ienv)
    result = {"stopped": None}

    def viol(mech, n, **kw):
        out["violations"].append({"mechanism": mech, "detail": dict(spec=spec.d, steps=steps[:n + 1], step=n, **kw)})

    async def tb(ctx):
        for n, st in enumerate(steps):
            buf = io.StringIO()
            raised = None
            if st[0] == "in":
                with contextlib.redirect_stdout(buf):
                    if nbits:
                        ctx.set(incat, exprsim.pack(ienv, st[1]))
                ref.set_inputs(st[1])
                exp_text, exp_fail = "", None
                out["extra"]["non_edge_steps_checked"] += 1
            else:
                rst = 1 if st[0] == "rst" else 0
                if rst:
                    ctx.set(b.cd.rst, 1)
                with contextlib.redirect_stdout(buf):
                    try:
                        ctx.set(b.cd.clk, b.act)
                    except AssertionError as ex:
                        raised = str(ex)
                effects = ref.clock_edge(rst)
                exp_text, exp_fail = expected_effects(spec, effects)
                out["extra"]["edges_checked"] += 1
                out["extra"]["print_instants"] += sum(1 for e, _ in effects if e[0] == "print")
            out["evaluations"] += 1
            got_text = buf.getvalue()
            if raised != exp_fail:
                if raised is None:
                    viol("assert-did-not-stop-simulation", n, expected=exp_fail)
                elif exp_fail is None:
                    viol("assert-stopped-simulation-spuriously", n, raised=raised)
                else:
                    viol("assert-message-mismatch", n, raised=raised, expected=exp_fail)
                return
            if got_text != exp_text:
                viol("print-instant-or-text-mismatch", n, simulated=got_text, expected=exp_text)
                return
            if raised is not None:
                out["extra"]["assert_stops_checked"] += 1
                result["stopped"] = n
                return
            if st[0] != "in":
                with contextlib.redirect_stdout(buf):
                    ctx.set(b.cd.clk, b.idle)
                    if st[0] == "rst":
                        ctx.set(b.cd.rst, 0)
                if buf.getvalue() != got_text:
                    viol("print-on-inactive-edge", n, simulated=buf.getvalue())
                    return
    sim.add_testbench(tb)
    try:
        sim.run()
    except Exception as ex:
        if exc_origin(ex) != "repo":
            raise
        out["violations"].append({"mechanism": f"timing-simulation-exception:{type(ex).__name__}",
                                  "detail": {"spec": spec.d, "steps": steps, "exception": repr(ex)[:300]}})


def run_gated(rng, out):
    """A monitor-only fragment (sync Print / Assert, optionally one register) under EnableInserter,
    ResetInserter or DomainRenamer: emissions and stops must follow the wrapper's semantics."""
    from amaranth.hdl import Module, Signal, ClockDomain, Print, Format, Assert, EnableInserter, ResetInserter, DomainRenamer, Cat
    from amaranth.sim import Simulator
    wrapper = rng.choice(["enable", "enable", "reset", "rename", "enable+rename", "none"])
    with_reg = rng.random() < 0.4
    with_assert = rng.random() < 0.6
    nested = rng.random() < 0.4
    k = rng.randrange(16)
    a = Signal(4)
    ctl = Signal()
    mon = Module()
    if with_reg:
        r = Signal(4)
        mon.d.sync += r.eq(r + 1)
    inner = mon
    if nested:
        sub = Module()
        mon.submodules.sub = sub
        inner = sub
    inner.d.sync += Print(Format("M={:d};", a), end="")
    if with_assert:
        inner.d.sync += Assert(a != k, Format("K{:d}", a))
    top = Module()
    cds = {"sync": ClockDomain("sync"), "other": ClockDomain("other")}
    top.domains.sync = cds["sync"]
    top.domains.other = cds["other"]
    keep = Signal()
    top.d.other += keep.eq(~keep)
    frag = mon
    dom = "sync"
    if wrapper in ("enable", "enable+rename"):
        frag = EnableInserter(ctl)(frag) if rng.random() < 0.5 else EnableInserter({"sync": ctl})(frag)
    elif wrapper == "reset":
        frag = ResetInserter(ctl)(frag)
    if wrapper in ("rename", "enable+rename"):
        frag = DomainRenamer("other")(frag) if rng.random() < 0.5 else DomainRenamer({"sync": "other"})(frag)
        dom = "other"
    top.submodules.mon = frag
    sim = Simulator(top)
    cfg = {"wrapper": wrapper, "with_reg": with_reg, "with_assert": with_assert, "nested": nested, "k": k}
    out["hist"]["gated:" + wrapper] = out["hist"].get("gated:" + wrapper, 0) + 1
    steps = []
    bad = []

    async def tb(ctx):
        av = cv = 0
        for n in range(40):
            x = rng.random()
            buf = io.StringIO()
            raised = None
            if x < 0.4:
                av, cv = rng.randrange(16), int(rng.random() < 0.5)
                steps.append(["in", av, cv])
                with contextlib.redirect_stdout(buf):
                    ctx.set(Cat(a, ctl), av | (cv << 4))
                exp_text, exp_fail = "", None
            else:
                d = rng.choice(["sync", "other"])
                steps.append(["edge", d])
                with contextlib.redirect_stdout(buf):
                    try:
                        ctx.set(cds[d].clk, 1)
                    except AssertionError as ex:
                        raised = str(ex)
                    if raised is None:
                        ctx.set(cds[d].clk, 0)
                active = (d == dom) and (cv == 1 or wrapper not in ("enable", "enable+rename"))
                exp_text = f"M={av};" if active else ""
                exp_fail = f"Assertion violated: K{av}" if (active and with_assert and av == k) else None
                out["extra"]["edges_checked"] += 1
            out["evaluations"] += 1
            if raised != exp_fail or buf.getvalue() != exp_text:
                bad.append({"config": cfg, "steps": list(steps), "simulated": buf.getvalue(), "expected": exp_text,
                            "raised": raised, "expected_failure": exp_fail})
                return
            if raised is not None:
                out["extra"]["assert_stops_checked"] += 1
                return
    sim.add_testbench(tb)
    try:
        sim.run()
    except Exception as ex:
        if exc_origin(ex) != "repo":
            raise
        bad.append({"config": cfg, "steps": steps, "exception": repr(ex)[:300]})
    for b in bad:
        out["violations"].append({"mechanism": "print-assert-under-wrapper:" + wrapper, "detail": b})
    out["fps"].add(fp(["gated", cfg, steps[:6]]))


# ------------------------------------------------------------------------------------------------
# messages and conditions
# ------------------------------------------------------------------------------------------------
LITERALS = ["", "x", "state ", " = ", "{{", "}}", "{{}}", "{{idle}}", "100%", "a}}b", "{{0}}", "\\n", "'q'", "{{:d}}"]
FIELDS = ["{}", "{:d}", "{:x}", "{:>4}", "{:+d}", "{:#b}", "{:03}", "{:_b}", "{0}", "{:<3d}"]
NESTED = ["{:{}d}", "{:>{}}", "{:0{}x}", "{0:{1}d}", "{1:{0}x}", "{:<{}b}"]
ENV4 = [(4, False), (4, True), (1, False), (8, False)]


_ENUM = []


def ENUM_CLASS():
    if not _ENUM:
        from amaranth.lib import enum as aenum

        class Mode(aenum.Enum, shape=4):
            IDLE = 0
            DÉBUT = 1
            zwölf = 12
            Ω = 7
            пять = 5
        _ENUM.append(Mode)
    return _ENUM[0]


def gen_template(rng, nfields=None):
    """-> (format template, [value expression IR]) with literal braces, several fields and constant messages"""
    n = rng.choice([0, 0, 1, 1, 2, 3]) if nfields is None else nfields
    tmpl, args = rng.choice(LITERALS), []
    for k in range(n):
        f = rng.choice(FIELDS + NESTED)
        if f in ("{0}", "{0:{1}d}", "{1:{0}x}") and n != 1:
            f = "{}"
        tmpl += f + rng.choice(LITERALS)
        value = X.gen_expr(rng, ENV4, rng.choice([0, 0, 1, 2]))
        if f in NESTED:
            # a replacement field inside the format specification (a build-time integer: the field width);
            # automatic numbering counts the outer field first, as str.format does
            width = ["pyint", rng.choice([1, 2, 3, 6, 9])]
            args += [width, value] if f == "{1:{0}x}" else [value, width]
        else:
            args.append(value)
    return tmpl, args


def gen_cond(rng):
    for _ in range(20):
        k = rng.random()
        i = rng.randrange(len(ENV4))
        if k < 0.3:
            c = ["ne", ["sig", i], ["const", rng.choice([0, 1, 3, -1])]]
        elif k < 0.45:
            c = ["inv", ["sig", i]]            # zero only when the operand is all ones
        elif k < 0.55:
            c = [rng.choice(["neg", "as_signed", "as_unsigned", "bool", "any"]), ["sig", i]]
        else:
            c = X.gen_expr(rng, ENV4, rng.choice([1, 2]))
        try:
            if X.ref_shape(c, ENV4)[0] >= 1:
                return c
        except X.IllFormed:
            continue
    return ["sig", 0]


def run_messages(rng, out):
    """Hand-written sync monitors in a domain clocked on either edge: Print with several arguments / sep / end,
    messages as plain strings, Format objects (several fields, literal braces, no fields at all) and nested
    Formats; Assert / Assume on arbitrary expressions (complements, casts, arithmetic: the condition is its value
    in its own shape, zero or not) with and without messages, optionally under If.  Text, instant and the stop
    are compared with Python formatting of the reference values at every event."""
    from amaranth.hdl import Module, Signal, Shape, ClockDomain, Print, Format, Assert, Assume, Cat
    from amaranth.sim import Simulator
    neg = rng.random() < 0.4
    cd = ClockDomain("sync", reset_less=True, clk_edge="neg" if neg else "pos")
    if neg:
        cd.clk = Signal(name="clk_n", init=1)
    idle = 1 if neg else 0
    m = Module()
    m.domains.sync = cd
    sigs = [Signal(Shape(w, sg), name=f"v{k}") for k, (w, sg) in enumerate(ENV4)]
    B = lambda ir: X.build(ir, sigs)
    R = lambda ir, vals: X.ref_eval(ir, ENV4, vals)
    items = []      # (kind, guard IR or None, payload)
    desc = []

    def gen_message():
        """-> (amaranth object, python function vals -> text, description)"""
        k = rng.random()
        tmpl, args = gen_template(rng)
        if k < 0.25 and not args:
            text = tmpl.format()
            return text, (lambda vals, text=text: text), ["str", text]
        if k < 0.85:
            return Format(tmpl, *[B(a) for a in args]), (lambda vals: tmpl.format(*[R(a, vals) for a in args])), ["format", tmpl, args]
        outer = rng.choice(["<{}>", "{{{}}}", "{}{{}}"])
        return (Format(outer, Format(tmpl, *[B(a) for a in args])),
                (lambda vals: outer.format(tmpl.format(*[R(a, vals) for a in args]))), ["nested", outer, tmpl, args])
    try:
        for k in range(rng.randrange(1, 5)):
            guard = gen_cond(rng) if rng.random() < 0.4 else None
            if rng.random() < 0.6:
                parts = []
                for _ in range(rng.randrange(1, 4)):
                    x_ = rng.random()
                    if x_ < 0.3:
                        e = X.gen_expr(rng, ENV4, rng.choice([0, 1]))
                        parts.append((B(e), (lambda vals, e=e: "{}".format(R(e, vals))), ["value", e]))
                    elif x_ < 0.42:
                        # an enumeration-typed view of a signal prints the member's name (names need not be ASCII),
                        # or "[unknown]" for a value that is no member
                        ev = ENUM_CLASS()(sigs[0])
                        names = {m_.value: m_.name for m_ in ENUM_CLASS()}
                        parts.append((ev, (lambda vals: names.get(vals[0] & 15, "[unknown]")), ["enum-view"]))
                    else:
                        parts.append(gen_message())
                sep, end = rng.choice([" ", " ", "", ", ", "{}", "{{"]), rng.choice(["\n", ";", "", "}", "{}\n"])
                stmt = Print(*[p[0] for p in parts], sep=sep, end=end)
                fn = (lambda vals, parts=parts, sep=sep, end=end: sep.join(p[1](vals) for p in parts) + end)
                items.append(("print", guard, fn))
                desc.append(["print", guard, [p[2] for p in parts], sep, end])
            else:
                cond = gen_cond(rng)
                kind = rng.choice(["Assert", "Assert", "Assume"])
                msg = gen_message() if rng.random() < 0.7 else None
                cls = Assert if kind == "Assert" else Assume
                stmt = cls(B(cond)) if msg is None else cls(B(cond), msg[0])
                items.append(("check", guard, (cond, kind, msg)))
                desc.append([kind, guard, cond, msg[2] if msg else None])
            if guard is None:
                m.d.sync += stmt
            else:
                with m.If(B(guard)):
                    m.d.sync += stmt
        sim = Simulator(m)
    except Exception as ex:
        if exc_origin(ex) != "repo":
            raise
        out["violations"].append({"mechanism": f"message-build-exception:{type(ex).__name__}",
                                  "detail": {"statements": desc, "exception": repr(ex)[:300]}})
        return
    cfg = {"negedge": neg, "statements": desc}
    out["hist"]["messages:" + ("negedge" if neg else "posedge")] = out["hist"].get("messages:" + ("negedge" if neg else "posedge"), 0) + 1
    for d in desc:
        for part in (d[2] if d[0] == "print" else [d[3]] if d[3] else []):
            hk = "message-form:" + part[0] + (":no-fields" if part[0] in ("format", "nested") and not part[-1] else "")
            out["hist"][hk] = out["hist"].get(hk, 0) + 1
    steps, bad = [], []
    incat = Cat(*sigs)

    def expected(vals):
        text = ""
        for kind, guard, payload in items:
            if guard is not None and R(guard, vals) == 0:
                continue
            if kind == "print":
                text += payload(vals)
            else:
                cond, akind, msg = payload
                if R(cond, vals) == 0:
                    fail = ("Assertion" if akind == "Assert" else "Assumption") + " violated"
                    if msg is not None:
                        fail += ": " + msg[1](vals)
                    return text, fail
        return text, None

    async def tb(ctx):
        vals = [0] * len(ENV4)
        for n in range(24):
            buf = io.StringIO()
            raised = None
            if rng.random() < 0.45:
                vals = [rng.choice(corner_values(w, sg, rng, 2)) for (w, sg) in ENV4]
                steps.append(["in", list(vals)])
                with contextlib.redirect_stdout(buf):
                    ctx.set(incat, exprsim.pack(ENV4, vals))
                exp_text, exp_fail = "", None
            else:
                steps.append(["edge"])
                with contextlib.redirect_stdout(buf):
                    try:
                        ctx.set(cd.clk, 1 - idle)
                    except AssertionError as ex:
                        raised = str(ex)
                exp_text, exp_fail = expected(vals)
                out["extra"]["edges_checked"] += 1
            out["evaluations"] += 1
            if raised != exp_fail or buf.getvalue() != exp_text:
                mech = ("assert-did-not-stop-simulation" if raised is None and exp_fail is not None else
                        "assert-stopped-simulation-spuriously" if exp_fail is None and raised is not None else
                        "assert-message-mismatch" if raised != exp_fail else "print-instant-or-text-mismatch")
                bad.append((mech, {"config": cfg, "steps": list(steps), "simulated": buf.getvalue(), "expected": exp_text,
                                   "raised": raised, "expected_failure": exp_fail}))
                return
            if raised is not None:
                out["extra"]["assert_stops_checked"] += 1
                return
            if steps[-1][0] == "edge":
                buf2 = io.StringIO()
                with contextlib.redirect_stdout(buf2):
                    try:
                        ctx.set(cd.clk, idle)
                    except AssertionError as ex:
                        raised = str(ex)
                if buf2.getvalue() or raised:
                    bad.append(("print-or-assert-on-inactive-edge", {"config": cfg, "steps": list(steps), "simulated": buf2.getvalue(), "raised": raised}))
                    return
    sim.add_testbench(tb)
    try:
        sim.run()
    except Exception as ex:
        if exc_origin(ex) != "repo":
            raise
        bad.append((f"message-simulation-exception:{type(ex).__name__}", {"config": cfg, "steps": steps, "exception": repr(ex)[:300]}))
    for mech, b in bad:
        out["violations"].append({"mechanism": mech + ":hand-written-monitor", "detail": b})
    out["fps"].add(fp(["messages", cfg]))


def shards(tier, seed):
    specs = [{"kind": "gated", "seed": seed, "n": 300 if tier == "quick" else 20000}]
    for i in range(4):
        specs.append({"kind": "messages", "seed": seed, "shard": i, "n": 250 if tier == "quick" else 12000})
    for i in range(NSHARDS):
        specs.append({"kind": "format", "part": i, "parts": NSHARDS, "seed": seed, "tier": tier})
        specs.append({"kind": "timing", "seed": seed, "shard": i,
                      "programs": (1200 if tier == "quick" else 80000) // NSHARDS,
                      "steps": 25 if tier == "quick" else 50})
    return specs


def run_shard(spec):
    instrument.install_slot_invariant()
    out = {"evaluations": 0, "fps": set(), "hist": {}, "violations": [], "samples": [], "exhaustive": [],
           "extra": {"prints_checked": 0, "edges_checked": 0, "non_edge_steps_checked": 0,
                     "print_instants": 0, "assert_stops_checked": 0, "programs": 0}}
    if spec["kind"] == "gated":
        rng = derive_rng("c20g", spec["seed"])
        for _ in range(spec["n"]):
            run_gated(rng, out)
    elif spec["kind"] == "messages":
        rng = derive_rng("c20m", spec["seed"], spec["shard"])
        for _ in range(spec["n"]):
            run_messages(rng, out)
    elif spec["kind"] == "format":
        rng = derive_rng("c20f", spec["seed"], spec["part"])
        allspecs = list(grammar_specs())
        mine = allspecs[spec["part"]::spec["parts"]]
        shapes = SHAPES if spec["tier"] == "thorough" else None
        for bi in range(0, len(mine), 50):
            batch = mine[bi:bi + 50]
            for shape in (shapes or [SHAPES[(bi // 50 + k) % len(SHAPES)] for k in range(3)]):
                run_format_batch(shape, batch, rng, out)
            for wrap in ("inv", "as_signed", "as_unsigned", "neg"):
                shape = rng.choice([(1, False), (4, False), (8, False), (5, True), (8, True)])
                run_format_batch(shape, batch, rng, out, wrap=wrap)
        out["samples"].append({"spec": mine[len(mine) // 3][0], "shape": [8, True], "value": -3,
                               "python": py_format(-3, (8, True), mine[len(mine) // 3][0])})
        out["exhaustive"].append("format-spec grammar (fill x align x sign x # x 0 x width x _ x type)")
    else:
        rng = derive_rng("c20t", spec["seed"], spec["shard"])
        for n in range(spec["programs"]):
            g = S.Gen(rng, max_nest=rng.randint(1, 3), max_stmts=rng.randint(3, 10))
            sp0 = g.spec()
            d = sp0.d
            neff = insert_effects(rng, d, sp0.ni + sp0.nc + sp0.ns)
            if rng.random() < 0.25:
                d["negedge"] = True
                out["hist"]["negedge-sync-domain"] = out["hist"].get("negedge-sync-domain", 0) + 1
            sp = S.Spec(d)
            steps = c02.make_stimulus(rng, sp, spec["steps"])
            run_timing_program(sp, steps, out)
            out["extra"]["programs"] += 1
            k = S.stmt_kinds(sp.stmts)
            for kk in ("print", "assert"):
                out["hist"][kk] = out["hist"].get(kk, 0) + k.get(kk, 0)
            if neff and (k.get("if", 0) + k.get("switch", 0) + k.get("fsm", 0)):
                out["fps"].add(fp(S.skeleton(sp.stmts)))
            if len(out["samples"]) < 1 and neff:
                out["samples"].append({"spec": d, "steps": steps[:3]})
    out["violations"].extend(instrument.VIOLATIONS)
    instrument.VIOLATIONS.clear()
    out["monitors"] = dict(instrument.COUNTERS)
    out["fps"] = sorted(out["fps"])
    return out
