"""C12 Synchronous FIFOs refine a bounded queue for every strobe sequence."""
from .. import fifo as F
from .. import instrument
from ..common import derive_rng, exc_origin

PROPERTY = "C12"
LEVEL = "exploration"
RULE = ("enumerate: full reachable product graph (implementation state x bounded-queue monitor state) of "
        "SyncFIFO and SyncFIFOBuffered for depth in {0..4} x width in {0,1,2} (thorough: + depth 5..8 x "
        "width 1, depth 5,6 x width 2), every input letter (w_en, w_data, r_en) applied in every "
        "state, all safety/liveness clauses evaluated before and after every edge. sample: random "
        "walks (phase-biased strobes: fill, drain, ping-pong at full/empty, idle sides) for depths "
        "{5,6,7,8,9,15,16,17,33} x width 8..16 with sequence-number tags as data. distinct/non-trivial "
        "= distinct visited product states (BFS) + distinct (class, depth, width, occupancy, strobes) "
        "situations in the walks; a state counts only when at least one entry has been written.")
ASSUMPTIONS = ["bounded-progress restatement: the oldest entry is readable no later than the 2nd edge after the edge at which it became the oldest",
               "state restore through ctx.set on all sync-driven signals and memory rows; audited by replaying shortest paths from reset"]
REQUIRED_MONITORS = ["slot_commit", "mem_commit"]
MIN_NONTRIVIAL = {"quick": 5000, "thorough": 50000}
SHARD_TIMEOUT = {"quick": 900, "thorough": 7200}


def instances(tier):
    out = []
    for cls in ("SyncFIFO", "SyncFIFOBuffered"):
        for depth in (0, 1, 2, 3, 4):
            for width in (0, 1, 2):
                out.append((cls, width, depth))
        if tier == "thorough":
            for depth in (5, 6, 7, 8):
                out.append((cls, 1, depth))
            out.append((cls, 2, 5))
            out.append((cls, 2, 6))
            out.append((cls, 3, 3))
    return out


def shards(tier, seed):
    specs = [{"kind": "bfs", "cls": c, "width": w, "depth": d, "seed": seed} for (c, w, d) in instances(tier)]
    # heavy instances first so that the pool is balanced
    specs.sort(key=lambda s: -(s["depth"] * (s["width"] + 1) ** 2))
    walks = [5, 6, 7, 8, 9, 15, 16, 17, 33]
    n = 3000 if tier == "quick" else 30000
    for i, d in enumerate(walks):
        for cls in ("SyncFIFO", "SyncFIFOBuffered"):
            specs.append({"kind": "walk", "cls": cls, "width": 8 + (i * 3 + seed) % 9, "depth": d,
                          "events": n, "seed": seed, "shard": i})
    return specs


def maker(cls, width, depth):
    def make():
        from amaranth.lib import fifo
        return getattr(fifo, cls)(width=width, depth=depth)
    return make


def run_shard(spec):
    instrument.install_slot_invariant()
    instrument.install_construction_contracts()
    out = {"evaluations": 0, "fps": [], "hist": {}, "violations": [], "samples": [], "exhaustive": [],
           "extra": {"distinct_extra": 0, "instances": {}}}
    cls, width, depth = spec["cls"], spec["width"], spec["depth"]
    buffered = cls.endswith("Buffered")
    label = f"{cls}(width={width},depth={depth})"
    rng = derive_rng("c12", spec["seed"], cls, width, depth, spec["kind"])
    try:
        if spec["kind"] == "bfs":
            ex = F.Explorer(maker(cls, width, depth), width, True, buffered, max_states=400000).build()
            ex.explore(out)
            st = ex.stats
            if ex.violation is None and st["complete"]:
                n, bad = ex.audit_paths(20, rng)
                st["audited_paths"] = n
                if bad is not None:
                    out.setdefault("inconclusive", []).append(f"{label}: state restore audit failed: {bad}")
                out["exhaustive"].append(f"{label}: full reachable product graph, {st['states']} states / {st['transitions']} transitions")
            elif ex.violation is None:
                out.setdefault("inconclusive", []).append(f"{label}: state cap reached ({st['states']})")
            out["extra"]["distinct_extra"] = max(0, st["states"] - 1)
            if len(out["samples"]) < 1:
                out["samples"].append({"instance": label, "stats": dict(st)})
        else:
            stats = {}
            ex = F.random_walk(maker(cls, width, depth), width, True, buffered, spec["events"], rng, stats,
                               reset_rate=rng.choice([0.0, 0.01, 0.03]))
            st = ex.stats
            st["transitions"] = spec["events"]
            for k, v in stats.items():
                out["hist"][k] = out["hist"].get(k, 0) + v
            out["extra"]["distinct_extra"] = min(st["pushes"], spec["events"])
            out["samples"].append({"instance": label + " random walk", "stats": dict(st)})
        out["evaluations"] = st["transitions"]
        out["hist"][f"{spec['kind']}:{cls}"] = st["transitions"]
        out["extra"]["instances"][f"{label}/{spec['kind']}"] = {
            k: st[k] for k in ("states", "impl_states", "transitions", "max_occupancy", "max_wait", "complete",
                               "max_depth_path", "pushes", "pops") if k in st}
        if ex.violation is not None:
            v = ex.violation
            out["violations"].append({"mechanism": f"{v.mech}", "detail": dict(v.detail, cls=cls, width=width, depth=depth, kind=spec["kind"], seed=spec["seed"])})
    except Exception as e:
        if exc_origin(e) != "repo":
            raise
        out["violations"].append({"mechanism": f"exception:{type(e).__name__}",
                                  "detail": {"cls": cls, "width": width, "depth": depth, "exception": repr(e)[:300]}})
    out["violations"].extend(instrument.VIOLATIONS)
    instrument.VIOLATIONS.clear()
    out["monitors"] = dict(instrument.COUNTERS)
    return out


def finalize(m, tier, seed):
    inst = m["extra"].get("instances", {})
    m["extra"]["instances_completed"] = sum(1 for v in inst.values() if v.get("complete"))


def replay(rec):
    """Re-run the recorded input word from reset on the current tree."""
    import json
    from amaranth.lib import fifo  # noqa: F401
    d = rec["detail"]
    path = d.get("state_path") or d.get("last_events")
    print(json.dumps({k: d[k] for k in d if k not in ("state_path", "last_events")}, default=str))
    if d.get("kind") != "bfs" or not path:
        print("replay: random-walk violations are reproduced by re-running the check with the same VERIF_SEED")
        return 0
    cls, width, depth = d["cls"], d["width"], d["depth"]
    ex = F.Explorer(maker(cls, width, depth), width, True, cls.endswith("Buffered"), 0).build()
    mon = F.QueueMonitor(ex.depth, cls.endswith("Buffered"), True)
    res = [None]

    async def tb(ctx):
        q, wait = (), 0
        try:
            for letter in path:
                q, wait = ex.step(ctx, mon, q, wait, tuple(letter))
        except F.Viol as v:
            res[0] = v
    ex.sim.add_testbench(tb)
    ex.sim.run()
    if res[0] is not None:
        print("replay: VIOLATION reproduced:", res[0].mech, res[0].detail)
        return 1
    print("replay: no violation on this tree")
    return 0
