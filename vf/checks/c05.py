"""C05 Testbench reads and writes agree with what a circuit would compute.

read side : ctx.get(e) vs ctx.get(o) with o combinationally assigned e (C01's workload).
write side: ctx.set(t, v) on state sigma vs the circuit statement t.eq(v) taking one clock edge
            from the same state; all signals compared bit for bit; reference resolver as the
            third opinion.  Memory rows: ctx.set/get of rows and row slices vs a write port /
            read port.  Shape-castable round trip through ctx.set/ctx.get.
"""
from .. import expr as X
from .. import target as T
from .. import exprsim, instrument
from ..common import derive_rng, fp, value_range, corner_values, norm, exc_origin
from . import c01

PROPERTY = "C05"
LEVEL = "exploration"
RULE = ("read side: the C01 enumerated (single operators, widths<=3, all values) and sampled "
        "expression workload, comparing ctx.get(expr) with the combinational circuit output. "
        "write side: enumerated targets (every target form of nesting <= 2 over 4- and 6-bit "
        "signals, all offset values, v in -8..15) and random targets (nesting <= 4) x random "
        "states x corner values; memory rows and row slices; struct/enum views. A case is a "
        "(target or expression, leaf shapes) pair; non-trivial = not a bare signal; distinct by "
        "structural fingerprint.")
ASSUMPTIONS = ["the circuit assignment is the oracle (that is the property); vf/target.resolve is "
               "only a third opinion recorded in witnesses",
               "array indices in range only"]
REQUIRED_MONITORS = ["slot_commit"]
MIN_NONTRIVIAL = {"quick": 300, "thorough": 2000}
NSHARDS = 16
READ_PREFIXES = ("read-vs-circuit-mismatch", "simulator-exception", "build-exception")


def shards(tier, seed):
    specs = []
    for i in range(NSHARDS):
        specs.append({"kind": "read", "spec": {"kind": "enum_single", "maxw": 3, "part": i, "parts": NSHARDS}})
        specs.append({"kind": "read", "spec": {"kind": "sample", "seed": seed + 7919, "shard": i,
                                               "trees": (1500 if tier == "quick" else 20000) // NSHARDS,
                                               "depth": 4 if tier == "quick" else 6, "leafw": 8,
                                               "nvals": 16 if tier == "quick" else 48}})
        specs.append({"kind": "write_enum", "part": i, "parts": NSHARDS, "tier": tier})
        specs.append({"kind": "write_sample", "seed": seed, "shard": i,
                      "targets": (1200 if tier == "quick" else 16000) // NSHARDS,
                      "depth": 3 if tier == "quick" else 4})
    specs.append({"kind": "memrow", "seed": seed, "n": 40 if tier == "quick" else 400})
    specs.append({"kind": "castable", "seed": seed})
    specs.append({"kind": "odd_arrays", "seed": seed, "n": 150 if tier == "quick" else 3000})
    return specs


# ------------------------------------------------------------------------------------------------

def run_write_group(env, targets, cases, out, max_viol=6):
    """targets: list of target IR; cases: list of (sigma tuple, v)."""
    from amaranth.hdl import Signal, Module, Shape, Cat, ClockDomain, signed
    from amaranth.sim import Simulator

    sigs = [Signal(Shape(w, s), name=f"s{k}") for k, (w, s) in enumerate(env)]
    m = Module()
    cd = ClockDomain("sync", reset_less=True)
    m.domains.sync = cd
    vin = Signal(signed(24), name="vin")
    en = Signal(max(len(targets), 1), name="en")
    built = []
    for k, t in enumerate(targets):
        try:
            bt = T.build(t, sigs)
            with m.If(en[k]):
                m.d.sync += bt.eq(vin)
        except Exception as ex:
            if exc_origin(ex) != "repo":
                raise
            out["violations"].append({"mechanism": f"write-build-exception:{type(ex).__name__}",
                                      "detail": {"env": env, "target": t, "exception": repr(ex)}})
            continue
        built.append((k, t, bt))
    # every state signal must be sync-driven so that it is legal to set it from the testbench and
    # it holds its value: give each an (inactive) sync driver
    hold = Signal(name="hold")
    with m.If(hold):
        m.d.sync += [s.eq(s) for s in sigs]
    try:
        sim = Simulator(m)
    except Exception as ex:
        if exc_origin(ex) != "repo":
            raise
        if len(targets) > 1:
            for t in targets:
                run_write_group(env, [t], cases, out, max_viol)
            return
        out["violations"].append({"mechanism": f"write-simulator-exception:{type(ex).__name__}",
                                  "detail": {"env": env, "target": targets[0], "exception": repr(ex)}})
        return
    allsig = Cat(*sigs)
    nbits = sum(w for w, s in env)
    flagged = set()
    viol = out["violations"]

    async def tb(ctx):
        for (k, t, bt) in built:
            for sigma, v in cases:
                out["evaluations"] += 1
                packed = exprsim.pack(env, sigma)
                # A: testbench write
                if nbits:
                    ctx.set(allsig, packed)
                try:
                    ctx.set(bt, v)
                    a = [ctx.get(s) for s in sigs]
                except Exception as ex:
                    if exc_origin(ex) != "repo":
                        raise
                    a = f"exception {type(ex).__name__}: {ex}"
                # B: circuit assignment, one clock edge
                if nbits:
                    ctx.set(allsig, packed)
                ctx.set(vin, v)
                ctx.set(en, 1 << k)
                ctx.set(cd.clk, 1)
                ctx.set(cd.clk, 0)
                ctx.set(en, 0)
                b = [ctx.get(s) for s in sigs]
                if a != b and k not in flagged:
                    flagged.add(k)
                    if len(viol) < max_viol:
                        try:
                            r = T.apply_write(t, env, list(sigma), v)
                        except Exception as ex:
                            r = repr(ex)
                        which = "testbench-write" if b == r else ("circuit" if a == r else "both")
                        viol.append({"mechanism": "write-vs-circuit-mismatch:" + "+".join(sorted(set(T.forms(t)))),
                                     "detail": {"env": env, "target": t, "state": list(sigma), "value": v,
                                                "after_ctx_set": a, "after_circuit": b,
                                                "documented": r, "deviates": which}})

    sim.add_testbench(tb)
    sim.run()


def enum_write_targets():
    """Every target form of nesting <= 2 over a 4-bit unsigned s0, a 6-bit signed s1, with a 3-bit
    offset signal s2 and a zero-width selector s3."""
    env = [(4, False), (6, True), (3, False), (0, False), (1, False)]
    S0, S1 = ["sig", 0], ["sig", 1]
    OFF, Z, B1 = ["sig", 2], ["sig", 3], ["sig", 4]
    level0 = [S0, S1]
    def wrap(t):
        w = T.t_shape(t, env)[0]
        outs = []
        for a in range(0, w + 1):
            for b in (a, a + 1, w):
                if a <= b <= w:
                    outs.append(["slice", t, a, b])
        for pw in (0, 1, 2, 3, w + 1):
            outs.append(["part", t, OFF, pw, 1, "bit"])
            outs.append(["part", t, Z, pw, 1, "bit"])
            for c in (0, 1, w - 1, w, w + 2):
                if c >= 0:
                    outs.append(["part", t, ["const", c], pw, 1, "bit"])
            if pw > 0:
                outs.append(["part", t, OFF, pw, pw, "word"])
                outs.append(["part", t, ["const", 1], pw, pw, "word"])
                outs.append(["part", t, ["const", 3], pw, pw, "word"])
        outs.append(["cat", [t, S0]])
        outs.append(["cat", [S1, t]])
        outs.append(["cat", [t]])
        outs.append(["array", [t, S0], B1])
        outs.append(["array", [S1, t], B1])
        outs.append(["array", [t], Z])
        outs.append(["array", [t, S1, S0[:], t], ["slice", OFF, 0, 2, None]])
        outs.append(["as_unsigned", t])
        if w > 0:
            outs.append(["as_signed", t])
        return outs
    level1 = []
    for t in level0:
        level1.extend(wrap(t))
    level2 = []
    for t in level1:
        try:
            level2.extend(wrap(t))
        except X.IllFormed:
            pass
    return env, level0 + level1 + level2


def _account(out, env, t):
    if t[0] != "sig":
        out["fps"].add(fp(T.fingerprint(t, env)))
    h = out["hist"]
    for f in set(T.forms(t)):
        h[f"form:{f}"] = h.get(f"form:{f}", 0) + 1
    d = T.depth(t)
    h[f"nesting:{d}"] = h.get(f"nesting:{d}", 0) + 1


def run_memrow(spec, out):
    from amaranth.hdl import Module, Signal, Shape, ClockDomain, Cat
    from amaranth.lib.memory import Memory
    from amaranth.sim import Simulator
    rng = derive_rng("c05mem", spec["seed"])
    for n in range(spec["n"]):
        w = rng.choice([1, 2, 3, 4, 8])
        signed_ = rng.random() < 0.4
        depth = rng.choice([1, 2, 3, 5])
        init = [rng.randrange(0, 1 << w) for _ in range(depth)]
        init = [norm(v, w, signed_) for v in init]
        m = Module()
        cd = ClockDomain("sync", reset_less=True)
        m.domains.sync = cd
        ma = Memory(shape=Shape(w, signed_), depth=depth, init=init)
        mb = Memory(shape=Shape(w, signed_), depth=depth, init=init)
        m.submodules.ma = ma
        m.submodules.mb = mb
        wp = mb.write_port(granularity=None if signed_ else 1)
        ra = ma.read_port(domain="comb")
        rb = mb.read_port(domain="comb")
        rwatch = ma.read_port(domain="comb")        # its address is left alone across the write
        # ma also needs a (never enabled) write port so that its rows are not constant-folded
        wa = ma.write_port()
        sim = Simulator(m)
        viol = out["violations"]
        ops = []

        async def tb(ctx):
            model = list(init)
            stale = []

            def watch_check(kind_, wj_):
                # a combinational read port that was already looking at a row sees the write as soon as ctx.set
                # returns (checked before anything else is set)
                seen, row_now = ctx.get(rwatch.data), ctx.get(ma.data[wj_])
                if seen != row_now:
                    stale.append(1)
                    viol.append({"mechanism": f"comb-read-port-stale-after-row-write:{kind_}",
                                 "detail": {"shape": [w, signed_], "depth": depth, "ops": ops[-2:], "watched_row": wj_,
                                            "read_port": seen, "row": row_now}})
            for step in range(25):
                i = rng.randrange(depth)
                a = rng.randrange(0, w + 1)
                b = rng.randrange(a, w + 1)
                v = rng.choice([0, -1, 1, rng.randrange(-(1 << (w + 1)), 1 << (w + 1))])
                kind = "row" if signed_ else rng.choice(["row", "slice", "part", "multi", "multi", "rows"])
                out["evaluations"] += 1
                wj = i if rng.random() < 0.7 else rng.randrange(depth)
                ctx.set(rwatch.addr, wj)
                if kind == "rows" and depth >= 2:
                    # one write over several whole rows where only the first listed row changes
                    j0 = i
                    j1 = rng.choice([j for j in range(depth) if j != j0])
                    cur1 = ctx.get(ma.data[j1]) & ((1 << w) - 1)
                    newv = rng.getrandbits(w)
                    v = newv | (cur1 << w)
                    ops.append((kind, [j0, j1], v))
                    ctx.set(rwatch.addr, j0)
                    wj = j0
                    ctx.set(Cat(ma.data[j0], ma.data[j1]), v)
                    watch_check("rows", wj)
                    ctx.set(wp.addr, j0)
                    ctx.set(wp.data, newv)
                    ctx.set(wp.en, (1 << w) - 1)
                    ctx.set(cd.clk, 1); ctx.set(cd.clk, 0)
                    ctx.set(wp.en, 0)
                    kind = "rows-done"
                elif kind == "rows":
                    kind = "row"
                if kind == "multi":
                    # a concatenation of disjoint pieces, several of them in the same row
                    pieces = []
                    free = {j: list(range(w)) for j in range(depth)}
                    for _ in range(rng.randrange(2, 5)):
                        j = i if rng.random() < 0.7 else rng.randrange(depth)
                        if not free[j]:
                            continue
                        lo_ = rng.choice(free[j])
                        hi_ = lo_
                        while hi_ in free[j] and hi_ - lo_ < 3 and (hi_ == lo_ or rng.random() < 0.6):
                            free[j].remove(hi_)
                            hi_ += 1
                        pieces.append((j, lo_, hi_))
                    tgt = Cat(*[ma.data[j][lo_:hi_] for (j, lo_, hi_) in pieces])
                    ops.append((kind, pieces, v))
                    try:
                        ctx.set(tgt, v)
                    except Exception as ex:
                        if exc_origin(ex) != "repo":
                            raise
                        viol.append({"mechanism": f"memrow-set-exception:{type(ex).__name__}",
                                     "detail": {"shape": [w, signed_], "depth": depth, "op": ops[-1], "exception": repr(ex)}})
                        return
                    watch_check(kind, wj)
                    pos = 0
                    per_row = {}
                    for (j, lo_, hi_) in pieces:
                        mk, dt = per_row.get(j, (0, 0))
                        piece_mask = (1 << hi_) - (1 << lo_)
                        bits = (v >> pos) & ((1 << (hi_ - lo_)) - 1)
                        per_row[j] = (mk | piece_mask, dt | (bits << lo_))
                        pos += hi_ - lo_
                    for j, (mk, dt) in per_row.items():
                        ctx.set(wp.addr, j)
                        ctx.set(wp.data, dt)
                        ctx.set(wp.en, mk)
                        ctx.set(cd.clk, 1); ctx.set(cd.clk, 0)
                    ctx.set(wp.en, 0)
                elif kind == "row":
                    tgt = ma.data[i]; lo, hi = 0, w
                elif kind == "slice":
                    tgt = ma.data[i][a:b]; lo, hi = a, b
                else:
                    off = rng.randrange(0, w + 2)
                    pw = rng.randrange(0, 4)
                    tgt = ma.data[i].bit_select(off, pw); lo, hi = off, min(off + pw, w)
                    hi = max(hi, lo)
                if kind not in ("multi", "rows-done"):
                    ops.append((kind, i, lo, hi, v))
                    try:
                        ctx.set(tgt, v)
                    except Exception as ex:
                        if exc_origin(ex) != "repo":
                            raise
                        viol.append({"mechanism": f"memrow-set-exception:{type(ex).__name__}",
                                     "detail": {"shape": [w, signed_], "depth": depth, "op": ops[-1], "exception": repr(ex)}})
                        return
                    watch_check(kind, wj)
                    # the circuit: write port with bit enables
                    mask = ((1 << hi) - (1 << lo)) if lo < w else 0
                    ctx.set(wp.addr, i)
                    ctx.set(wp.data, ((v << lo) & ((1 << w) - 1)))
                    ctx.set(wp.en, 1 if signed_ else mask)
                    ctx.set(cd.clk, 1); ctx.set(cd.clk, 0)
                    ctx.set(wp.en, 0)
                if stale:
                    return
                rows_a = [ctx.get(ma.data[j]) for j in range(depth)]
                rows_b = [ctx.get(mb.data[j]) for j in range(depth)]
                ports_a = []
                for j in range(depth):
                    ctx.set(ra.addr, j)
                    ports_a.append(ctx.get(ra.data))
                if rows_a != rows_b or ports_a != rows_a:
                    if len(viol) < 6:
                        viol.append({"mechanism": f"memrow-write-vs-port-mismatch:{kind}",
                                     "detail": {"shape": [w, signed_], "depth": depth, "init": init,
                                                "ops": ops[-3:], "rows_after_ctx_set": rows_a,
                                                "rows_after_write_port": rows_b, "read_port_view": ports_a}})
                    return
        sim.add_testbench(tb)
        sim.run()
        out["fps"].add(fp(["memrow", w, signed_, depth]))
        out["hist"]["memrow-config"] = out["hist"].get("memrow-config", 0) + 1


def run_castable(spec, out):
    import enum as pyenum
    from amaranth.hdl import Module, Signal
    from amaranth.lib import data, enum as aenum
    from amaranth.sim import Simulator
    rng = derive_rng("c05cast", spec["seed"])

    class E(aenum.Enum, shape=3):
        A = 0
        B = 5
        C = 7

    lay = data.StructLayout({"a": 3, "e": E, "s": data.ArrayLayout(-2 if False else 2, 2)})
    sig_l = Signal(lay)
    sig_e = Signal(E)
    m = Module()
    viol = out["violations"]

    async def tb(ctx):
        for _ in range(60):
            x = {"a": rng.randrange(8), "e": rng.choice(list(E)), "s": [rng.randrange(4), rng.randrange(4)]}
            out["evaluations"] += 1
            ctx.set(sig_l, x)
            got = ctx.get(sig_l)
            exp = lay.from_bits(lay.const(x).as_bits())
            if got != exp or got.a != x["a"] or got.e != x["e"] or got.s[1] != x["s"][1]:
                viol.append({"mechanism": "castable-roundtrip:struct", "detail": {"x": repr(x), "got": repr(got)}})
            # field values that are already constants, of the field's width or narrower / wider / signed: each is
            # assigned to its field like any value (truncated or extended by its own signedness), neighbours untouched
            from amaranth.hdl import Const, Shape
            av, cw, csg = rng.randrange(-8, 16), rng.choice([1, 2, 3, 4, 6]), rng.random() < 0.5
            ca = Const(av, Shape(cw, csg))
            s0 = Const(rng.randrange(-4, 8), Shape(rng.choice([1, 2, 3]), rng.random() < 0.5))
            y = {"a": ca, "e": x["e"], "s": [s0, x["s"][1]]}
            order = list(y)
            rng.shuffle(order)
            ctx.set(sig_l, {k: y[k] for k in order})
            from amaranth.hdl import Value
            raw = ctx.get(Value.cast(sig_l))
            want = (ca.value & 7) | (x["e"].value << 3) | ((s0.value & 3) << 6) | (x["s"][1] << 8)
            out["evaluations"] += 1
            if raw != want:
                viol.append({"mechanism": "castable-write-with-constant-field-values",
                             "detail": {"written": repr(y), "order": order, "bits_read": raw, "bits_expected": want}})
                return
            e = rng.choice(list(E))
            ctx.set(sig_e, e)
            g = ctx.get(sig_e)
            if g is not e:
                viol.append({"mechanism": "castable-roundtrip:enum", "detail": {"x": repr(e), "got": repr(g)}})
            out["fps"].add(fp(["castable", x["a"], int(x["e"].value), x["s"]]))
    sim = Simulator(m)
    sim.add_testbench(tb)
    sim.run()
    out["hist"]["castable-roundtrips"] = 60


def run_odd_arrays(spec, out):
    """Arrays whose index cannot reach every element: signed indices (negative values select nothing), indices too
    narrow for the element count, a single element, and multi-row memory targets.  No reference model here: the
    circuit itself is the oracle (a combinational signal assigned the expression; a register assigned through it)."""
    import warnings
    from amaranth.hdl import Module, Signal, Shape, ClockDomain, Array, Value, Cat
    from amaranth.sim import Simulator
    rng = derive_rng("c05odd", spec["seed"])
    for case in range(spec["n"]):
        iw, isg = rng.choice([(1, False), (2, False), (1, True), (2, True), (3, True), (0, False)])
        n = rng.randrange(1, 7)
        ew = rng.choice([1, 3, 4])
        esg = rng.random() < 0.3
        cfg = {"index_shape": [iw, isg], "elements": n, "element_shape": [ew, esg]}
        out["hist"][f"odd-array:index-{'s' if isg else 'u'}{iw}:elements-{n}"] = out["hist"].get(f"odd-array:index-{'s' if isg else 'u'}{iw}:elements-{n}", 0) + 1
        m = Module()
        cd = ClockDomain("sync", reset_less=True)
        m.domains.sync = cd
        idx = Signal(Shape(iw, isg), name="idx")
        src = [Signal(Shape(ew, esg), name=f"e{k}") for k in range(n)]      # read side
        regs = [Signal(Shape(ew, esg), name=f"r{k}", init=rng.getrandbits(ew) if not esg else 0) for k in range(n)]   # written by the circuit
        tbr = [Signal(Shape(ew, esg), name=f"t{k}") for k in range(n)]       # written by ctx.set
        vin = Signal(8, name="vin")
        with warnings.catch_warnings():
            warnings.simplefilter("ignore")
            rd = Array(src)[idx]
            o = Signal(Value.cast(rd).shape(), name="o")
            m.d.comb += o.eq(rd)
            m.d.sync += Array(regs)[idx].eq(vin)
            tb_target = Array(tbr)[idx]
            keep = Signal()
            m.d.comb += keep.eq(Cat(*tbr).any())
            sim = Simulator(m)
        bad = []
        ivals = list(range(-(1 << (iw - 1)), 1 << (iw - 1))) if isg else list(range(1 << iw))

        async def tb(ctx):
            for iv in ivals:
                ctx.set(idx, iv)
                for rep in range(2):
                    vals = [rng.getrandbits(ew) for _ in range(n)]
                    ctx.set(Cat(*src), sum(v << (k * ew) for k, v in enumerate(vals)))
                    with warnings.catch_warnings():
                        warnings.simplefilter("ignore")
                        got, circ = ctx.get(rd), ctx.get(o)
                    out["evaluations"] += 1
                    if got != circ:
                        bad.append(("read-vs-circuit-mismatch:array-with-unreachable-elements", dict(index=iv, elements=vals, testbench=got, circuit=circ)))
                        return
                    v = rng.getrandbits(8)
                    before = [rng.getrandbits(ew) for _ in range(n)]
                    ctx.set(Cat(*regs), sum(x << (k * ew) for k, x in enumerate(before)))
                    ctx.set(Cat(*tbr), sum(x << (k * ew) for k, x in enumerate(before)))
                    ctx.set(vin, v)
                    ctx.set(cd.clk, 1)
                    ctx.set(cd.clk, 0)
                    with warnings.catch_warnings():
                        warnings.simplefilter("ignore")
                        ctx.set(tb_target, v if not esg else norm(v, ew, True))
                    a, b_ = ctx.get(Cat(*regs)), ctx.get(Cat(*tbr))
                    if a != b_:
                        bad.append(("write-vs-circuit-mismatch:array-with-unreachable-elements", dict(index=iv, before=before, value=v, circuit=a, testbench=b_)))
                        return
        sim.add_testbench(tb)
        try:
            sim.run()
        except Exception as ex:
            if exc_origin(ex) != "repo":
                raise
            bad.append((f"odd-array-exception:{type(ex).__name__}", dict(exception=repr(ex)[:300])))
        for mech, d in bad:
            out["violations"].append({"mechanism": mech, "detail": dict(config=cfg, **d)})
        out["fps"].add(fp(["odd-array", cfg]))


def run_shard(spec):
    instrument.install_slot_invariant()
    instrument.install_construction_contracts()
    if spec["kind"] == "read":
        out = c01.run_shard(spec["spec"], want_read=True, prefixes=READ_PREFIXES)
        out["hist"] = {"read:" + k: v for k, v in out["hist"].items() if k.startswith(("op:", "depth:"))}
        out["exhaustive"] = ["read side: " + e for e in out["exhaustive"]]
        return out
    out = {"evaluations": 0, "fps": set(), "hist": {}, "violations": [], "samples": [],
           "exhaustive": [], "extra": {}}
    if spec["kind"] == "write_enum":
        env, targets = enum_write_targets()
        mine = targets[spec["part"]::spec["parts"]]
        vs = list(range(-8, 16))
        states = [(0, 0), (15, -1), (5, -22), (10, 21)]
        for gi in range(0, len(mine), 24):
            grp = mine[gi:gi + 24]
            cases = []
            for (a, b) in states:
                for off in range(8):
                    for b1 in (0, 1):
                        # all offsets x a rotating subset of v (all v over the run)
                        for v in vs[(off + b1) % 3::3]:
                            cases.append(((a, b, off, 0, b1), v))
            run_write_group(env, grp, cases, out)
            for t in grp:
                _account(out, env, t)
        if mine:
            out["samples"].append({"env": env, "target": mine[len(mine) // 2], "values": "v in -8..15, all offsets"})
        out["exhaustive"].append("write side: target forms of nesting<=2 over u4/s6 signals x all offset values")
    elif spec["kind"] == "write_sample":
        rng = derive_rng("c05w", spec["seed"], spec["shard"])
        n = 0
        while n < spec["targets"]:
            env = []
            for _ in range(rng.choice([2, 3, 4])):
                w = rng.choice([0, 1, 2, 3, 4, 5, 6, 8])
                env.append((w, w > 0 and rng.random() < 0.4))
            env.append((rng.choice([0, 1, 2, 3]), False))  # an offset-friendly signal
            targets = [T.gen_target(rng, env, rng.randint(1, spec["depth"])) for _ in range(16)]
            cases = []
            for _ in range(24):
                sigma = tuple(rng.choice(corner_values(w, s, rng, 2)) for (w, s) in env)
                v = rng.choice([0, -1, 1, 2, -2, 5, 0x55, -0x56, 255, -256, 1000, -1000, 0x7ffff, -0x80000])
                cases.append((sigma, v))
            run_write_group(env, targets, cases, out)
            for t in targets:
                _account(out, env, t)
            if len(out["samples"]) < 2:
                out["samples"].append({"env": env, "target": targets[0], "cases": [[list(s), v] for s, v in cases[:2]]})
            n += len(targets)
    elif spec["kind"] == "memrow":
        run_memrow(spec, out)
    elif spec["kind"] == "odd_arrays":
        run_odd_arrays(spec, out)
    elif spec["kind"] == "castable":
        run_castable(spec, out)
    out["violations"].extend(instrument.VIOLATIONS)
    instrument.VIOLATIONS.clear()
    out["monitors"] = dict(instrument.COUNTERS)
    out["fps"] = sorted(out["fps"])
    return out
