"""C01 Operators compute exact integer results in shapes that never overflow.

Workload: (a) enumerated layer: every operator x operand-shape pair (widths 0..N, signed and
unsigned) x ALL operand values; (b) enumerated depth-2 compositions for small widths; (c) random
trees.  Monitors: exprref (documented shape + exact value), slot invariant.
"""
import itertools

from .. import expr as X
from .. import exprsim, instrument
from ..common import derive_rng, fp, value_range

PROPERTY = "C01"
LEVEL = "exploration"
RULE = ("enumerate: each operator x operand shapes (widths 0..3 quick / 0..4 thorough, both "
        "signednesses) x all operand values, plus depth-2 compositions op2(op1(a,b),c) for widths "
        "<= 2; sample: random operator trees (depth <= 4 / 6) over 2-4 leaf signals with "
        "corner-biased valuations.  A case is an (expression, leaf shapes) pair; non-trivial = at "
        "least one operator and one signal leaf; distinct = by structural fingerprint (operator "
        "tree + leaf shapes + constant parameters, values abstracted).")
ASSUMPTIONS = [
    "exprref (vf/expr.py) is a correct transcription of the documented operator semantics and shapes; "
    "it self-checks that every exact result fits the documented shape",
    "array indices are generated in range only; leaf widths bounded (<= 16), total width <= 160",
]
REQUIRED_MONITORS = ["slot_commit"]
MIN_NONTRIVIAL = {"quick": 200, "thorough": 1000}
SHARD_TIMEOUT = {"quick": 600, "thorough": 7200}

NSHARDS = 16
VERDICT_PREFIXES = ("shape-mismatch", "circuit-value-mismatch", "build-exception",
                    "simulator-exception", "slot-out-of-range", "memory-row-out-of-range", "contract:")


def shapes_upto(n):
    out = [(w, False) for w in range(0, n + 1)]
    out += [(w, True) for w in range(1, n + 1)]
    return out


def enum_single(maxw):
    """Yield (env, expr) for every single operator over shapes of width <= maxw."""
    S = shapes_upto(maxw)
    U = [s for s in S if not s[1]]
    A, B, C = ["sig", 0], ["sig", 1], ["sig", 2]
    for a in S:
        env = [a]
        w = a[0]
        for op in X.UNARY:
            yield env, [op, A]
        for n in range(-maxw - 1, maxw + 2):
            yield env, ["shift_left", A, n]
            yield env, ["shift_right", A, n]
            yield env, ["rotate_left", A, n]
            yield env, ["rotate_right", A, n]
        for i in range(-w, w):
            yield env, ["index", A, i]
        rng = [None] + list(range(-w - 1, w + 2))
        for st in rng:
            for sp in rng:
                for step in (None, 2, -1):
                    yield env, ["slice", A, st, sp, step]
        for n in range(0, 4):
            yield env, ["replicate", A, n]
        for off in range(0, w + 3):
            for n in range(0, w + 2):
                yield env, ["bit_select_c", A, off, n]
        for off in range(0, 4):
            for n in range(1, 4):
                yield env, ["word_select_c", A, off, n]
        # matches: every single pattern, plus pairs
        pats = ["".join(p) for p in itertools.product("01-", repeat=w)]
        ints = list(value_range(*a)) + [value_range(*a)[-1] + 1, value_range(*a)[0] - 1]
        for p in pats + ints:
            yield env, ["matches", A, [p]]
        yield env, ["matches", A, []]
        for p, q in zip(pats, reversed(pats)):
            yield env, ["matches", A, [p, q]]
        for p, q in zip(ints, ints[1:]):
            yield env, ["matches", A, [p, " " + pats[len(pats) // 2] if w else q]]
        yield env, ["cat", []]
        yield env, ["cat", [A]]
        yield env, ["cat", [A, A, A]]
    for a in S:
        for b in S:
            env = [a, b]
            for op in X.BINARY:
                if op in ("shl", "shr") and b[1]:
                    continue
                yield env, [op, A, B]
            yield env, ["cat", [A, B]]
            if not b[1]:
                for n in range(0, 4):
                    yield env, ["bit_select", A, B, n]
                    yield env, ["word_select", A, B, n]
    Ssel = [s for s in S if s[0] <= 2]
    for sel in Ssel:
        for a in S:
            for b in S:
                yield [sel, a, b], ["mux", A, B, C]
    for iw in range(0, 3):
        n = 1 << iw
        for a in S:
            for b in S:
                elems = [["sig", 1 + (k % 2)] for k in range(n)]
                yield [(iw, False), a, b], ["array", elems, A]
                yield [(iw, False), a, b], ["array", elems + [["const", -3]], A]


def enum_reflected(maxw):
    """Operands that reach the operators through other entry points: a bare Python integer on either
    side (reflected methods __radd__, __rmod__, ...) and an array proxy used directly (value-castable
    right/left operand, reflected comparison dispatch)."""
    S = shapes_upto(maxw)
    A, B, C, I = ["sig", 0], ["sig", 1], ["sig", 2], ["sig", 3]
    ints = [0, 1, 2, 3, 5, 13, -1, -3]
    for a in S:
        for op in X.BINARY:
            for k in ints:
                yield [a], [op, ["pyint", k], A]
                yield [a], [op, A, ["pyint", k]]
            yield [a], ["mux", A, ["pyint", 3], A]
            # Python booleans and enumeration members (plain, IntEnum, amaranth.lib.enum) as direct operands
            others = [["pybool", 0], ["pybool", 1]] + [["pyenum", k, nm] for k, e in enumerate(X.PYENUMS) for nm in e[3]]
            for op in X.BINARY:
                for o in others:
                    if op in ("shl", "shr") and X.ref_shape(o, [])[1]:
                        yield [a], [op, o, A]
                        continue
                    yield [a], [op, o, A]
                    yield [a], [op, A, o]
            for o in others:
                yield [a], ["mux", A, o, A]
                yield [a], ["cat", [A, o]]
    Ssmall = [s for s in S if s[0] <= 2]
    for a in Ssmall:
        for b in Ssmall:
            for c in Ssmall[::2]:
                env = [a, b, c, (1, False)]
                proxy = ["array_raw", [B, C], I]
                for op in X.BINARY:
                    if op in ("shl", "shr"):
                        continue
                    yield env, [op, A, proxy]
                    yield env, [op, proxy, A]


def enum_depth2(maxw, stride, offset):
    """op2(op1(a[,b]), c) for widths <= maxw; every `stride`-th case starting at `offset`."""
    S = shapes_upto(maxw)
    U = [s for s in S if not s[1]]
    A, B, C = ["sig", 0], ["sig", 1], ["sig", 2]
    k = 0
    inner = []
    for a in S:
        for op in X.UNARY:
            inner.append(([a, (0, False)], [op, A]))
    for a in S:
        for b in S:
            for op in X.BINARY:
                if op in ("shl", "shr") and b[1]:
                    continue
                inner.append(([a, b], [op, A, B]))
            inner.append(([a, b], ["cat", [A, B]]))
    for env2, e1 in inner:
        for c in S:
            env = env2 + [c]
            outs = []
            for op in X.UNARY:
                outs.append([op, e1])
            for op in X.BINARY:
                if op not in ("shl", "shr") or not c[1]:
                    outs.append([op, e1, C])
                outs.append([op, C, e1])  # shl/shr with signed amount filtered as IllFormed
            if not c[1]:
                for n in (1, 2, 3):
                    outs.append(["bit_select", e1, C, n])
                    outs.append(["word_select", e1, C, n])
            outs.append(["cat", [e1, C]])
            outs.append(["mux", C, e1, C])
            outs.append(["mux", e1, C, ["const", -1]])
            outs.append(["slice", e1, 1, None, None])
            outs.append(["shift_right", e1, 1])
            outs.append(["rotate_left", e1, 1])
            outs.append(["replicate", e1, 2])
            for o in outs:
                if k % stride == offset:
                    yield env, o
                k += 1


def group_by_env(pairs, batch):
    cur_env = None
    cur = []
    for env, e in pairs:
        env = [tuple(x) for x in env]
        if env != cur_env or len(cur) >= batch:
            if cur:
                yield cur_env, cur
            cur_env, cur = env, []
        cur.append(e)
    if cur:
        yield cur_env, cur


def shards(tier, seed):
    specs = []
    maxw = 3 if tier == "quick" else 4
    for i in range(NSHARDS):
        specs.append({"kind": "enum_single", "maxw": maxw, "part": i, "parts": NSHARDS})
    for i in range(NSHARDS):
        specs.append({"kind": "enum_reflected", "maxw": 2 if tier == "quick" else 3, "part": i, "parts": NSHARDS})
    d2_stride = 40 if tier == "quick" else 2
    for i in range(NSHARDS):
        specs.append({"kind": "enum_depth2", "maxw": 2, "stride": d2_stride * NSHARDS,
                      "offset": (seed % d2_stride) * NSHARDS + i if tier == "quick" else i,
                      "full_stride": d2_stride})
    ntrees = 3000 if tier == "quick" else 200000
    for i in range(NSHARDS):
        specs.append({"kind": "sample", "seed": seed, "shard": i, "trees": ntrees // NSHARDS,
                      "depth": 4 if tier == "quick" else 6, "leafw": 8 if tier == "quick" else 16,
                      "nvals": 24 if tier == "quick" else 64})
    return specs


def _account(out, env, e):
    ops = X.ops_in(e)
    if ops and X.has_signal(e):
        out["fps"].add(fp(X.fingerprint(e, env)))
    h = out["hist"]
    for o in set(ops):
        h[f"op:{o}"] = h.get(f"op:{o}", 0) + 1
    d = X.depth(e)
    h[f"depth:{d}"] = h.get(f"depth:{d}", 0) + 1
    if any(w == 0 for w, s in env):
        h["zero_width_leaf"] = h.get("zero_width_leaf", 0) + 1
    if X.consumes_unnormalised(e):
        h["consumes_unnormalised_intermediate"] = h.get("consumes_unnormalised_intermediate", 0) + 1
    sg = "".join("s" if s else "u" for w, s in env)
    h[f"leaf_signs:{sg}"] = h.get(f"leaf_signs:{sg}", 0) + 1


def run_shard(spec, want_read=True, prefixes=VERDICT_PREFIXES):
    instrument.install_slot_invariant()
    instrument.install_construction_contracts()
    out = {"evaluations": 0, "fps": set(), "hist": {}, "violations": [], "samples": [],
           "exhaustive": [], "extra": {"expressions": 0}}
    kind = spec["kind"]
    if kind in ("enum_single", "enum_depth2", "enum_reflected"):
        if kind == "enum_reflected":
            pairs = []
            for env, e in enum_reflected(spec["maxw"]):
                try:
                    X.ref_shape(e, [tuple(x) for x in env])
                except X.IllFormed:
                    continue
                pairs.append((env, e))
            groups = list(group_by_env(pairs, 48))
            groups = groups[spec["part"]::spec["parts"]]
            out["exhaustive"].append(f"binary operators with a bare Python integer / a direct array proxy on either side x shapes(width<={spec['maxw']}) x all values")
        elif kind == "enum_single":
            pairs = list(enum_single(spec["maxw"]))
            groups = list(group_by_env(pairs, 48))
            groups = groups[spec["part"]::spec["parts"]]
            out["exhaustive"].append(f"single operator x shapes(width<={spec['maxw']}) x all values")
        else:
            pairs = enum_depth2(spec["maxw"], spec["stride"], spec["offset"])
            groups = group_by_env(pairs, 48)
            if spec["full_stride"] == 1:
                out["exhaustive"].append("depth-2 compositions widths<=2 x all values")
        for env, exprs in groups:
            r = exprsim.run_group(env, exprs, exprsim.all_valuations(env), want_read=want_read)
            out["evaluations"] += r["evaluations"]
            out["extra"]["expressions"] += r["built"]
            out["violations"].extend(r["violations"])
            for e in exprs:
                _account(out, env, e)
            if len(out["samples"]) < 2 and exprs:
                out["samples"].append({"env": env, "expr": exprs[len(exprs) // 2], "valuations": "all"})
    else:
        rng = derive_rng("c01", spec["seed"], spec["shard"])
        n = 0
        while n < spec["trees"]:
            nl = rng.choice([2, 3, 3, 4])
            env = []
            for _ in range(nl):
                w = rng.choice([0, 1, 1, 2, 3, 4, 5, 7, 8, spec["leafw"]])
                s = w > 0 and rng.random() < 0.45
                env.append((w, s))
            exprs = []
            for _ in range(32):
                e = X.gen_expr(rng, env, rng.randint(1, spec["depth"]))
                try:
                    X.ref_shape(e, env)
                except X.IllFormed:
                    continue
                exprs.append(e)
            vals = exprsim.sample_valuations(env, rng, spec["nvals"])
            r = exprsim.run_group(env, exprs, vals, want_read=want_read)
            out["evaluations"] += r["evaluations"]
            out["extra"]["expressions"] += r["built"]
            out["violations"].extend(r["violations"])
            for e in exprs:
                _account(out, env, e)
            if len(out["samples"]) < 2:
                out["samples"].append({"env": env, "expr": exprs[0], "valuations": [list(v) for v in vals[:3]]})
            n += len(exprs)
    out["violations"] = [v for v in out["violations"] if v["mechanism"].startswith(prefixes)]
    out["monitors"] = dict(instrument.COUNTERS)
    out["fps"] = sorted(out["fps"])
    return out


def replay(rec):
    from ..common import setup_repo_path
    setup_repo_path()
    instrument.install_slot_invariant()
    d = rec["detail"]
    env = [tuple(x) for x in d["env"]]
    vals = [tuple(d["vals"])] if "vals" in d else list(exprsim.all_valuations(env))[:64]
    r = exprsim.run_group(env, [d["expr"]], vals)
    import json
    print(json.dumps(r["violations"], indent=1, default=str))
    bad = [v for v in r["violations"]]
    print("replay:", "VIOLATION reproduced" if bad else "no violation on this tree")
    return 1 if bad else 0
