"""C17 Clock-domain-crossing primitives meet their latency and pulse contracts."""
import itertools

from .. import instrument
from ..fifo import state_holders
from ..common import derive_rng, fp, exc_origin, norm, corner_values

PROPERTY = "C17"
LEVEL = "exploration"
RULE = ("input and output domains clocked on the rising or the falling edge (AsyncFF/ResetSynchronizer output domain: "
        "rising only, as the primitive requires); observations right after each active edge and after the clock returned; "
        "FFSynchronizer (stages 2..5, width 0..8 signed/unsigned, any init, reset_less both ways), "
        "AsyncFFSynchronizer (stages 2..5, async_edge pos/neg), ResetSynchronizer (stages 2..5, sync and "
        "async reset domains), PulseSynchronizer (stages 2..5): random schedules of 200 events over "
        "{input change, input-domain edge, output-domain edge, both edges at once} compared after every "
        "event with shift-register / assert-release / pulse-count models; enumerate: every event "
        "sequence of length <= 7 (quick) / 9 (thorough) over that alphabet for stages 2 and 3 (DFS with state "
        "restore). distinct/non-trivial = distinct (primitive, configuration, schedule prefix hash) "
        "with at least one output-domain edge and one input change.")
ASSUMPTIONS = ["data/reset inputs and clock edges never change in the same event (one ctx.set each)",
               "PulseSynchronizer precondition enforced by the driver: an output-clock edge occurs strictly between consecutive input pulses",
               "pulse count compared after a flush of stages+2 output edges"]
REQUIRED_MONITORS = ["slot_commit"]
MIN_NONTRIVIAL = {"quick": 300, "thorough": 3000}
NSHARDS = 16


class Viol(Exception):
    def __init__(self, mech, **detail):
        self.mech = mech
        self.detail = detail


# ------------------------------------------------------------------------------------------------
# Device wrappers: build(), events(), apply(ctx, ev), model
# Every device exposes: clk signals icd/ocd, a reference model stepped by the same events, and
# check(ctx) comparing the observable output(s).
# Events: ("in", value) | ("edge", mask)  mask bit0 = input-domain clock, bit1 = output-domain clock
# ------------------------------------------------------------------------------------------------

def mkdomain(name, neg, **kw):
    """A clock domain; when clocked on the falling edge, its clock signal idles at 1 from time 0 on."""
    from amaranth.hdl import ClockDomain, Signal
    cd = ClockDomain(name, clk_edge="neg" if neg else "pos", **kw)
    if neg:
        cd.clk = Signal(name=f"{name}_clk", init=1)
    return cd


_PLATFORMS = {}


def make_platform(name):
    """An offline instance of a vendor platform whose get_ff_sync replaces FFSynchronizer's implementation."""
    if name not in _PLATFORMS:
        from amaranth.vendor import XilinxPlatform

        class P(XilinxPlatform):
            device = "xc7a35t"
            package = "csg324"
            speed = "1"
            resources = []
            connectors = []
        _PLATFORMS[name] = P()
    return _PLATFORMS[name]


class Dev:
    def build(self):
        from amaranth.hdl import Cat
        from amaranth.sim import Simulator
        # a domain clocked on the falling edge has a clock that idles at 1 (see mkdomain); the harness speaks of
        # "the active edge" (mask bit set) and translates to levels here
        self.idle = (1 if self.icd.clk_edge == "neg" else 0) | (2 if self.ocd.clk_edge == "neg" else 0)
        platform = getattr(self, "platform", None)
        if platform is None:
            self.sim = Simulator(self.m)
        else:
            # elaborated for a platform that overrides the synchroniser (get_ff_sync), then simulated
            from amaranth.hdl import Fragment
            self.sim = Simulator(Fragment.get(self.m, make_platform(platform)))
        self.clkcat = Cat(self.icd.clk, self.ocd.clk)
        sigs, mems = state_holders(self.sim)
        self.state_sigs = sigs
        self.statecat = Cat(*sigs)
        return self

    def pulse(self, ctx, mask):
        ctx.set(self.clkcat, mask ^ self.idle)
        ctx.set(self.clkcat, self.idle)

    def step_checked(self, ctx, st, ev):
        """Apply one event and compare with the model; for clock edges the comparison is made right
        after the rising edge and again after the clock has fallen. -> new model state"""
        if ev[0] == "edge":
            ctx.set(self.clkcat, ev[1] ^ self.idle)
            st2 = self.model_step(st, ev)
            try:
                self.check(ctx, st2)
            except Viol as v:
                v.detail["when"] = "right after the active edge"
                raise
            ctx.set(self.clkcat, self.idle)
        else:
            self.apply(ctx, ev)
            st2 = self.model_step(st, ev)
        self.check(ctx, st2)
        return st2


class FFSyncDev(Dev):
    """din --(idom register)--> i --FFSynchronizer--> o"""

    def __init__(self, width, signed, stages, init, reset_less, neg=(False, False), oshape=None, platform=None, per_bit=False):
        from amaranth.hdl import Module, Signal, ClockDomain, Shape
        from amaranth.lib.cdc import FFSynchronizer
        oshape = tuple(oshape) if oshape is not None else (width, signed)      # the output may be wider / narrower
        self.cfg = dict(kind="FFSynchronizer", width=width, signed=signed, stages=stages, init=init, reset_less=reset_less,
                        negedge=list(neg), oshape=list(oshape), platform=platform)
        self.width, self.signed, self.stages = width, signed, stages
        self.oshape, self.platform = oshape, platform
        m = Module()
        self.icd = mkdomain("idom", neg[0], reset_less=True)
        self.ocd = mkdomain("odom", neg[1])
        m.domains.idom = self.icd
        m.domains.odom = self.ocd
        sh = Shape(width, signed)
        self.din = Signal(sh)
        self.i = Signal(sh)
        self.o = Signal(Shape(*oshape))
        m.d.idom += self.i.eq(self.din)
        per_bit = bool(per_bit and width >= 2 and oshape == (width, signed))
        self.cfg["one_synchronizer_per_bit"] = per_bit
        if per_bit:
            # a bank of one-bit synchronisers writing the bits of one output signal (they change in the same instant)
            for k in range(width):
                m.submodules[f"dut{k}"] = FFSynchronizer(self.i[k], self.o[k], o_domain="odom", init=(norm(init, width, False) >> k) & 1,
                                                         reset_less=reset_less, stages=stages)
        else:
            m.submodules.dut = FFSynchronizer(self.i, self.o, o_domain="odom", init=init, reset_less=reset_less, stages=stages)
        self.m = m
        self.init = norm(init, width, signed)
        self.reset_less = reset_less
        self.inputs = [self.din, self.ocd.rst]

    def model_init(self):
        # (din, i, rst, stages...)
        return (0, 0, 0) + (self.init,) * self.stages

    def model_step(self, st, ev):
        din, i, rst, *fl = st
        if ev[0] == "in":
            return (ev[1], i, rst) + tuple(fl)
        if ev[0] == "rst":
            return (din, i, ev[1]) + tuple(fl)
        mask = ev[1]
        ni, nfl = i, list(fl)
        if mask & 1:
            ni = din
        if mask & 2:
            nfl = [i] + fl[:-1]
            if rst and not self.reset_less:
                nfl = [self.init] * self.stages
        return (din, ni, rst) + tuple(nfl)

    def apply(self, ctx, ev):
        if ev[0] == "in":
            ctx.set(self.din, ev[1])
        elif ev[0] == "rst":
            ctx.set(self.ocd.rst, ev[1])
        else:
            self.pulse(ctx, ev[1])

    def check(self, ctx, st):
        got = ctx.get(self.o)
        exp = norm(st[-1], *self.oshape)       # (the last stage, in the input's shape, assigned to the output)
        if got != exp:
            raise Viol("ffsync-output-latency", output=got, expected=exp, model=list(st))

    def letters(self, st, rng=None):
        vals = [0, norm(-1, self.width, self.signed)] if rng is None else [rng.choice(corner_values(self.width, self.signed, rng, 2))]
        out = [("in", v) for v in vals if v != st[0]] + [("edge", 1), ("edge", 2), ("edge", 3)]
        return out

    def restore_inputs(self, ctx, st):
        ctx.set(self.din, st[0])
        ctx.set(self.ocd.rst, st[2])


class AsyncFFDev(Dev):
    """AsyncFFSynchronizer / ResetSynchronizer: model = number of released edges since last assert."""

    def __init__(self, kind, stages, edge="pos", async_domain=False, neg=(False, False)):
        from amaranth.hdl import Module, Signal, ClockDomain
        from amaranth.lib.cdc import AsyncFFSynchronizer, ResetSynchronizer
        self.cfg = dict(kind=kind, stages=stages, async_edge=edge, async_reset_domain=async_domain, negedge=[neg[0], False])
        self.stages, self.edge = stages, edge
        m = Module()
        # unrelated clock: must have no influence (the output domain must be posedge: the primitive requires it)
        self.icd = mkdomain("idom", neg[0], reset_less=True)
        self.ocd = ClockDomain("odom", async_reset=async_domain)
        m.domains.idom = self.icd
        m.domains.odom = self.ocd
        self.i = Signal(init=0 if edge == "pos" else 1)
        dummy = Signal()
        m.d.idom += dummy.eq(~dummy)
        if kind == "AsyncFFSynchronizer":
            self.o = Signal()
            m.submodules.dut = AsyncFFSynchronizer(self.i, self.o, o_domain="odom", stages=stages, async_edge=edge)
            keep = Signal()
            m.d.odom += keep.eq(~keep)
        else:
            self.o = self.ocd.rst
            m.submodules.dut = ResetSynchronizer(self.i, domain="odom", stages=stages)
            # a register in the reset domain, to observe that the reset really reaches it
            self.ctr = Signal(4, init=5)
            m.d.odom += self.ctr.eq(self.ctr + 1)
        self.m = m
        self.kind = kind

    def asserted(self, i):
        return i == (1 if self.edge == "pos" else 0)

    def model_init(self):
        # (i, released_edges)  output asserted iff released_edges < stages; flops power up asserted
        return (0 if self.edge == "pos" else 1, 0)

    def model_step(self, st, ev):
        i, c = st
        if ev[0] == "in":
            return (ev[1], 0 if self.asserted(ev[1]) else c)
        if ev[1] & 2:
            if self.asserted(i):
                c = 0
            else:
                c = min(c + 1, self.stages)
        return (i, c)

    def apply(self, ctx, ev):
        if ev[0] == "in":
            ctx.set(self.i, ev[1])
        else:
            self.pulse(ctx, ev[1])

    def check(self, ctx, st):
        got = ctx.get(self.o)
        exp = 1 if st[1] < self.stages else 0
        if got != exp:
            raise Viol("async-ff-assert-release", output=got, expected=exp, released_edges=st[1], input=st[0])

    def letters(self, st, rng=None):
        return [("in", 1 - st[0]), ("edge", 1), ("edge", 2), ("edge", 3)]

    def restore_inputs(self, ctx, st):
        ctx.set(self.i, st[0])


class PulseDev(Dev):
    def __init__(self, stages, neg=(False, False), platform=None, rename=None):
        from amaranth.hdl import Module, Signal, ClockDomain, DomainRenamer
        from amaranth.lib.cdc import PulseSynchronizer
        self.platform = platform
        self.collapsed = rename in ("collapsed", "collapsed-nested")      # both sides on the output clock
        self.cfg = dict(kind="PulseSynchronizer", stages=stages, negedge=list(neg), platform=platform, rename=rename)
        self.stages = stages
        m = Module()
        self.icd = mkdomain("idom", neg[0], reset_less=True)
        self.ocd = mkdomain("odom", neg[1], reset_less=True)
        m.domains.idom = self.icd
        m.domains.odom = self.ocd
        if rename is None:
            ps = m.submodules.dut = PulseSynchronizer("idom", "odom", stages=stages)
        else:
            # the primitive is written for domains "wr"/"rd" and moved by DomainRenamer: onto the two clocks, or
            # both sides onto one clock (then every edge is a coincident edge of both sides)
            ps = PulseSynchronizer("wr", "rd", stages=stages)
            m.submodules.dut = {
                "plain": lambda: DomainRenamer({"wr": "idom", "rd": "odom"})(ps),
                "plain-reordered": lambda: DomainRenamer({"rd": "odom", "wr": "idom"})(ps),
                "collapsed": lambda: DomainRenamer({"wr": "odom", "rd": "odom"})(ps),
                "collapsed-nested": lambda: DomainRenamer({"rd": "odom"})(DomainRenamer({"wr": "rd"})(ps)),
            }[rename]()
        self.i, self.o = ps.i, ps.o
        self.m = m

    # model state: (i, n_in, n_out_seen, o_edges_since_last_pulse(saturating), oedge_ok)
    def model_init(self):
        return (0, 0, 0, 99, 1)

    def apply(self, ctx, ev):
        if ev[0] == "in":
            ctx.set(self.i, ev[1])
        else:
            self.pulse(ctx, ev[1])


def run_schedule(dev, events, out, label):
    """Random-schedule mode for FFSync / AsyncFF devices: compare after every event."""
    res = [None]

    async def tb(ctx):
        st = dev.model_init()
        try:
            dev.check(ctx, st)
            for n, ev in enumerate(events):
                out["evaluations"] += 1
                try:
                    st = dev.step_checked(ctx, st, ev)
                except Viol as v:
                    v.detail.update(step=n, events=[list(e) for e in events[:n + 1]], config=dev.cfg)
                    raise
        except Viol as v:
            res[0] = v
    dev.sim.add_testbench(tb)
    dev.sim.run()
    return res[0]


def gen_events(dev, rng, n):
    st = dev.model_init()
    evs = []
    ratio = rng.choice([(1, 1), (1, 3), (3, 1), (1, 7), (7, 1), (0, 1)])
    for _ in range(n):
        x = rng.random()
        if x < 0.3:
            cand = [l for l in dev.letters(st, rng) if l[0] == "in"]
            if not cand:
                continue
            ev = rng.choice(cand)
        elif x < 0.33 and isinstance(dev, FFSyncDev):
            ev = ("rst", 1 - st[2])
        elif x < 0.45:
            ev = ("edge", 3)
        else:
            tot = ratio[0] + ratio[1]
            ev = ("edge", 1 if rng.random() * tot < ratio[0] else 2)
        evs.append(ev)
        st = dev.model_step(st, ev)
    return evs


def enumerate_sequences(dev, L, out):
    """All event sequences of length <= L by DFS with state restore (impl state via ctx.set)."""
    res = [None]
    count = [0]

    async def tb(ctx):
        def key():
            return ctx.get(dev.statecat) if dev.state_sigs else 0

        def restore(k, st):
            if dev.state_sigs:
                ctx.set(dev.statecat, k)
            dev.restore_inputs(ctx, st)
        st0 = dev.model_init()
        dev.check(ctx, st0)
        stack = [(key(), st0, [])]
        try:
            while stack:
                k, st, path = stack.pop()
                if len(path) >= L:
                    continue
                for ev in dev.letters(st):
                    restore(k, st)
                    count[0] += 1
                    try:
                        st2 = dev.step_checked(ctx, st, ev)
                    except Viol as v:
                        v.detail.update(events=[list(e) for e in path + [ev]], config=dev.cfg)
                        raise
                    stack.append((key(), st2, path + [ev]))
        except Viol as v:
            res[0] = v
    dev.sim.add_testbench(tb)
    dev.sim.run()
    out["evaluations"] += count[0]
    return res[0], count[0]


def run_pulse(dev, rng, nevents, out):
    """PulseSynchronizer: pulses in == output-high cycles out (as sampled at output edges), after flush."""
    res = [None]
    stats = {"pulses_in": 0, "pulses_out": 0, "coincident_pulse_edges": 0, "flushes": 0}

    async def tb(ctx):
        n_in = n_out = 0
        oedge_since_pulse = True
        trace = []
        ratio = rng.choice([(1, 1), (1, 3), (3, 1), (1, 5), (5, 1)])
        try:
            i = 0
            for n in range(nevents):
                x = rng.random()
                if x < 0.25:
                    want = rng.random() < 0.6
                    # precondition: only pulse again once an output edge fell strictly after the previous pulse
                    i = 1 if (want and oedge_since_pulse) else 0
                    ctx.set(dev.i, i)
                    trace.append(["in", i])
                    continue
                if x < 0.4 or dev.collapsed:
                    mask = 3
                else:
                    mask = 1 if rng.random() * (ratio[0] + ratio[1]) < ratio[0] else 2
                if (mask & 1) and i and not oedge_since_pulse:
                    ctx.set(dev.i, 0)
                    i = 0
                    trace.append(["in", 0])
                o_pre = ctx.get(dev.o)
                pulsed = bool(mask & 1) and i == 1
                dev.pulse(ctx, mask)
                trace.append(["edge", mask])
                out["evaluations"] += 1
                if mask & 2 and o_pre:
                    n_out += 1
                if pulsed:
                    n_in += 1
                    oedge_since_pulse = False
                    if mask == 3:
                        stats["coincident_pulse_edges"] += 1
                elif mask & 2:
                    oedge_since_pulse = True
                if n_out > n_in:
                    raise Viol("pulse-sync-spurious-output-pulse", pulses_in=n_in, pulses_out=n_out)
                if rng.random() < 0.03:
                    # flush: stages + 2 output edges with the input low
                    ctx.set(dev.i, 0)
                    i = 0
                    for _ in range(dev.stages + 2):
                        if ctx.get(dev.o):
                            n_out += 1
                        dev.pulse(ctx, 2)
                    oedge_since_pulse = True
                    trace.append(["flush"])
                    stats["flushes"] += 1
                    if ctx.get(dev.o):
                        raise Viol("pulse-sync-output-still-high-after-flush", pulses_in=n_in, pulses_out=n_out)
                    if n_in != n_out:
                        raise Viol("pulse-sync-count-mismatch", pulses_in=n_in, pulses_out=n_out)
        except Viol as v:
            v.detail.update(config=dev.cfg, last_events=trace[-80:])
            res[0] = v
        stats["pulses_in"], stats["pulses_out"] = n_in, n_out
    dev.sim.add_testbench(tb)
    dev.sim.run()
    return res[0], stats


def check_platform_netlists(out):
    """AsyncFFSynchronizer / ResetSynchronizer elaborated for the Xilinx platform are built from FDPE primitives the
    simulator cannot run: the emitted netlist is read and evaluated instead.  There are `stages` flip-flops, all
    clocked by the output domain, every preset pin carries the input (async_edge="pos") or its complement ("neg")
    - so the output asserts as soon as the input does.  (The release path through the D pins is not evaluated: the
    primitives' outputs are opaque to the evaluator.)"""
    from amaranth.hdl import Module, Signal, ClockDomain
    from amaranth.hdl._ir import PortDirection as PD
    from amaranth.lib.cdc import AsyncFFSynchronizer, ResetSynchronizer
    from amaranth.back import rtlil
    from ..rtlil import parse as RP, eval as RE
    for kind in ("AsyncFFSynchronizer", "ResetSynchronizer"):
        for edge in (("pos", "neg") if kind == "AsyncFFSynchronizer" else ("pos",)):
            for stages in (2, 3, 4):
                cfg = {"kind": kind, "stages": stages, "async_edge": edge, "platform": "xilinx", "observed": "netlist"}
                m = Module()
                m.domains.odom = cd = ClockDomain("odom")
                i, o = Signal(name="i"), Signal(name="o")
                ports = {"i": (i, PD.Input), "clk": (cd.clk, PD.Input)}
                if kind == "AsyncFFSynchronizer":
                    m.submodules.dut = AsyncFFSynchronizer(i, o, o_domain="odom", stages=stages, async_edge=edge)
                    ports["o"] = (o, PD.Output)
                    ports["rst"] = (cd.rst, PD.Input)
                else:
                    m.submodules.dut = ResetSynchronizer(i, domain="odom", stages=stages)
                    m.d.comb += o.eq(cd.rst)
                    ports["o"] = (o, PD.Output)
                out["evaluations"] += 1
                out["hist"]["platform-netlist:" + kind] = out["hist"].get("platform-netlist:" + kind, 0) + 1

                def bad(why, **kw):
                    out["violations"].append({"mechanism": "platform-override-netlist:" + why + ":" + kind, "detail": dict(config=cfg, **kw)})
                try:
                    doc = RP.parse(rtlil.convert(m, platform=make_platform("xilinx"), ports=ports, emit_src=False))
                    ev = RE.Evaluator(doc)
                except Exception as ex:
                    if exc_origin(ex) != "repo" and not isinstance(ex, (RP.ParseError, RE.EvalError)):
                        raise
                    bad("exception", exception=repr(ex)[:200])
                    continue
                cells = [(mod, c) for mod in doc.modules.values() for c in mod.cells.values() if c.type == "\\FDPE"]
                if len(cells) != stages:
                    bad("flip-flop-count", found=len(cells), expected=stages)
                    continue
                scope = next(pth for pth, sc in ev.scopes.items() if sc.module.name == cells[0][0].name)

                def val(bit):
                    if bit[0] != "w":
                        return (int(bit[1]) if bit[0] == "c" else None, 0)
                    v, x = ev.get_path(list(scope), bit[1])
                    return ((v >> bit[2]) & 1, (x >> bit[2]) & 1)
                ok = True
                for iv in (0, 1, 0, 1):
                    ev.set("i", iv)
                    ev.set("clk", 0)
                    if "rst" in ports:
                        ev.set("rst", 0)
                    ev.step()
                    want = iv if edge == "pos" else 1 - iv
                    for mod, c in cells:
                        pv = val(c.conns["PRE"][0])
                        if pv != (want, 0):
                            bad("preset-pin-does-not-follow-the-input", input=iv, preset=list(pv), expected=want)
                            ok = False
                            break
                    if not ok:
                        break
                if not ok:
                    continue
                out["fps"].add(fp(cfg))


def shards(tier, seed):
    n = 320 if tier == "quick" else 16000
    specs = [{"kind": "sample", "seed": seed, "shard": i, "schedules": n // NSHARDS, "events": 200} for i in range(NSHARDS)]
    L = 7 if tier == "quick" else 9
    for dev in ("ff2", "ff3", "ff2neg", "ffxs", "ffws", "aff2p", "aff2n", "aff3p", "rs2", "rs3", "rs2a"):
        specs.append({"kind": "enum", "dev": dev, "L": L})
    specs.append({"kind": "platform-netlists"})
    return specs


def make_enum_dev(name):
    if name == "ff2":
        return FFSyncDev(1, False, 2, 1, True)
    if name == "ff3":
        return FFSyncDev(1, False, 3, 0, True)
    if name == "ff2neg":
        return FFSyncDev(1, False, 2, 1, True, neg=(False, True))
    if name == "ffxs":       # signed input, wider signed output, elaborated for the platform override
        return FFSyncDev(3, True, 2, -3, True, oshape=(6, True), platform="xilinx")
    if name == "ffws":       # the same through the generic implementation
        return FFSyncDev(3, True, 2, -3, True, oshape=(6, True))
    if name == "aff2p":
        return AsyncFFDev("AsyncFFSynchronizer", 2, "pos")
    if name == "aff2n":
        return AsyncFFDev("AsyncFFSynchronizer", 2, "neg")
    if name == "aff3p":
        return AsyncFFDev("AsyncFFSynchronizer", 3, "pos")
    if name == "rs2":
        return AsyncFFDev("ResetSynchronizer", 2)
    if name == "rs3":
        return AsyncFFDev("ResetSynchronizer", 3)
    if name == "rs2a":
        return AsyncFFDev("ResetSynchronizer", 2, async_domain=True)
    raise KeyError(name)


def random_dev(rng):
    k = rng.random()
    stages = rng.choice([2, 2, 3, 4, 5])
    neg = (rng.random() < 0.3, rng.random() < 0.3)
    if k < 0.35:
        width = rng.choice([0, 1, 1, 2, 3, 4, 5, 8])
        signed = width > 0 and rng.random() < 0.3
        init = rng.choice(corner_values(width, signed, rng, 1))
        oshape = None
        if rng.random() < 0.4:
            oshape = (max(0, width + rng.choice([-1, 1, 2, 4])), rng.random() < 0.5 if width else False)
            if oshape[0] == 0:
                oshape = (0, False)
        return FFSyncDev(width, signed, stages, init, rng.random() < 0.7, neg=neg, oshape=oshape,
                         platform="xilinx" if rng.random() < 0.3 else None, per_bit=rng.random() < 0.3)
    if k < 0.55:
        return AsyncFFDev("AsyncFFSynchronizer", stages, rng.choice(["pos", "neg"]), neg=neg)
    if k < 0.75:
        return AsyncFFDev("ResetSynchronizer", stages, "pos", async_domain=rng.random() < 0.4, neg=neg)
    rename = rng.choice([None, None, "plain", "plain-reordered", "collapsed", "collapsed-nested"])
    if rename in ("collapsed", "collapsed-nested"):
        neg = (neg[1], neg[1])
    return PulseDev(stages, neg=neg, platform="xilinx" if rng.random() < 0.25 else None, rename=rename)


def run_shard(spec):
    instrument.install_slot_invariant()
    out = {"evaluations": 0, "fps": set(), "hist": {}, "violations": [], "samples": [], "exhaustive": [],
           "extra": {"pulses_in": 0, "pulses_out": 0, "coincident_pulse_edges": 0, "flushes": 0, "enumerated_sequences": 0}}

    def record(v, dev):
        out["violations"].append({"mechanism": v.mech + ":" + dev.cfg["kind"], "detail": v.detail})
    try:
        if spec["kind"] == "platform-netlists":
            check_platform_netlists(out)
        elif spec["kind"] == "enum":
            dev = make_enum_dev(spec["dev"]).build()
            v, n = enumerate_sequences(dev, spec["L"], out)
            out["extra"]["enumerated_sequences"] += n
            out["hist"]["enum:" + dev.cfg["kind"]] = n
            out["fps"].add(fp(["enum", dev.cfg]))
            if v is not None:
                record(v, dev)
            else:
                out["exhaustive"].append(f"{dev.cfg}: all event sequences of length <= {spec['L']} ({n} steps)")
        else:
            rng = derive_rng("c17", spec["seed"], spec["shard"])
            for k in range(spec["schedules"]):
                dev = random_dev(rng).build()
                kind = dev.cfg["kind"]
                out["hist"][f"{kind}:stages={dev.cfg['stages']}"] = out["hist"].get(f"{kind}:stages={dev.cfg['stages']}", 0) + 1
                if dev.cfg.get("rename"):
                    out["hist"][f"{kind}:under-DomainRenamer:{dev.cfg['rename']}"] = out["hist"].get(f"{kind}:under-DomainRenamer:{dev.cfg['rename']}", 0) + 1
                if dev.cfg.get("platform"):
                    out["hist"][f"{kind}:platform-override:{dev.cfg['platform']}"] = out["hist"].get(f"{kind}:platform-override:{dev.cfg['platform']}", 0) + 1
                ek = f"{kind}:clock-edges(in,out)=" + ",".join("neg" if x else "pos" for x in dev.cfg["negedge"])
                out["hist"][ek] = out["hist"].get(ek, 0) + 1
                if isinstance(dev, PulseDev):
                    v, st = run_pulse(dev, rng, spec["events"] * 2, out)
                    for kk, vv in st.items():
                        out["extra"][kk] += vv
                    out["fps"].add(fp([dev.cfg, spec["seed"], spec["shard"], k]))
                else:
                    evs = gen_events(dev, rng, spec["events"])
                    v = run_schedule(dev, evs, out, kind)
                    if any(e[0] == "edge" and e[1] & 2 for e in evs) and any(e[0] == "in" for e in evs):
                        out["fps"].add(fp([dev.cfg, [list(e) for e in evs[:40]]]))
                    for e in evs:
                        kk = "event:" + (e[0] if e[0] != "edge" else f"edge{e[1]}")
                        out["hist"][kk] = out["hist"].get(kk, 0) + 1
                    if len(out["samples"]) < 1:
                        out["samples"].append({"config": dev.cfg, "events": [list(e) for e in evs[:12]]})
                if v is not None:
                    record(v, dev)
    except Exception as e:
        if exc_origin(e) != "repo":
            raise
        out["violations"].append({"mechanism": f"exception:{type(e).__name__}", "detail": {"spec": spec, "exception": repr(e)[:300]}})
    out["violations"].extend(instrument.VIOLATIONS)
    instrument.VIOLATIONS.clear()
    out["monitors"] = dict(instrument.COUNTERS)
    out["fps"] = sorted(out["fps"])
    return out


def finalize(m, tier, seed):
    if m["extra"].get("pulses_in", 0) == 0 and not m["violations"]:
        m["inconclusive"].append("PulseSynchronizer monitor observed no input pulse")


def replay(rec):
    import json
    d = rec["detail"]
    cfg = d.get("config", {})
    print(json.dumps(cfg), rec.get("mechanism"))
    if cfg.get("kind") == "FFSynchronizer":
        dev = FFSyncDev(cfg["width"], cfg["signed"], cfg["stages"], cfg["init"], cfg["reset_less"], neg=cfg.get("negedge", (False, False)),
                        oshape=cfg.get("oshape"), platform=cfg.get("platform"), per_bit=cfg.get("one_synchronizer_per_bit", False)).build()
    elif cfg.get("kind") in ("AsyncFFSynchronizer", "ResetSynchronizer"):
        dev = AsyncFFDev(cfg["kind"], cfg["stages"], cfg["async_edge"], cfg["async_reset_domain"], neg=cfg.get("negedge", (False, False))).build()
    else:
        print("replay: pulse-count violations are reproduced by re-running the check with the same VERIF_SEED")
        return 0
    out = {"evaluations": 0}
    v = run_schedule(dev, [tuple(e) for e in d["events"]], out, "replay")
    print("replay:", f"VIOLATION reproduced: {v.mech} {v.detail}" if v else "no violation on this tree")
    return 1 if v else 0
