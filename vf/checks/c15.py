"""C15 Data layouts and shaped enumerations obey the shape-castable laws."""
import enum as pyenum
import itertools

from .. import instrument
from ..common import derive_rng, fp, exc_origin, norm

PROPERTY = "C15"
LEVEL = "exploration"
RULE = ("random layout trees (struct/union/array/flexible with gaps and overlaps, depth <= 3/4, leaves "
        "unsigned/signed width 0..6 and shaped enums incl. signed ones): declared placement (offset, "
        "width, size) vs layoutref; from_bits(raw).as_bits()==raw, Const.cast round trip, shape laws; "
        "every field of from_bits(raw) read back vs model extraction, for all raw patterns when size <= "
        "10 else 64 samples; const(init) for dict/list/partial/hdl.Const initialisers vs model "
        "insertion in initialiser order; simulated views: every leaf field == slice of the underlying "
        "value reinterpreted in the field shape; assignment through a view field (circuit statement and "
        "ctx.set) changes exactly that field's bits. enums: shaped Enum/Flag const/from_bits round "
        "trips; FlagView ~ & | ^ simulated against a Python enum.Flag twin over all member "
        "combinations. distinct/non-trivial = distinct layout trees with >= 2 fields, or enum classes.")
ASSUMPTIONS = ["layoutref (this file): struct running sum, union offset 0 / max size, array i*w, flexible as given",
               "Python's own enum.Flag with the same members and boundary is the oracle for flag operators; for KEEP/EJECT boundaries the shape width is the bit length of the highest flag (where Python's and Amaranth's notion of 'all bits' coincide)",
               "the synthesis side is the emitted RTLIL evaluated by vf/rtlil (field reads and field assignments of the same view module)"]
REQUIRED_MONITORS = ["slot_commit"]
MIN_NONTRIVIAL = {"quick": 300, "thorough": 3000}
NSHARDS = 16


# ---- layout IR & layoutref ----------------------------------------------------------------------
def gen_leaf(rng):
    k = rng.random()
    if k < 0.5:
        return ["u", rng.choice([0, 1, 1, 2, 3, 4, 6])]
    if k < 0.8:
        return ["s", rng.choice([1, 2, 3, 5])]
    signed = rng.random() < 0.3
    w = rng.choice([2, 3])
    lo, hi = (-(1 << (w - 1)), 1 << (w - 1)) if signed else (0, 1 << w)
    vals = sorted(rng.sample(range(lo, hi), rng.randrange(1, min(4, hi - lo) + 1)))
    return ["enum", vals, w, signed]


def gen_layout(rng, depth):
    k = rng.random()
    if depth == 0 or k < 0.25:
        return gen_leaf(rng)
    if k < 0.55:
        return ["struct", [[f"f{j}", gen_layout(rng, depth - 1)] for j in range(rng.randrange(1, 4))]]
    if k < 0.7:
        return ["union", [[f"u{j}", gen_layout(rng, depth - 1)] for j in range(rng.randrange(1, 4))]]
    if k < 0.88:
        return ["array", gen_layout(rng, depth - 1), rng.choice([0, 1, 2, 3, 4, 5])]
    fields = []
    size = rng.randrange(1, 10)
    for j in range(rng.randrange(1, 4)):
        sub = gen_layout(rng, depth - 1)
        w = lsize(sub)
        if w > size:
            size = w
        fields.append([f"x{j}" if rng.random() < 0.8 else j, sub, rng.randrange(0, size - w + 1)])
    return ["flex", size, fields]


def is_leaf(l):
    return l[0] in ("u", "s", "enum")


def lsize(l):
    if l[0] in ("u", "s"):
        return l[1]
    if l[0] == "enum":
        return l[2]
    if l[0] == "struct":
        return sum(lsize(s) for _, s in l[1])
    if l[0] == "union":
        return max([lsize(s) for _, s in l[1]] or [0])
    if l[0] == "array":
        return lsize(l[1]) * l[2]
    return l[1]


def fields(l):
    """-> [(key, sub, offset)] of an aggregate layout per the documented placement rules."""
    if l[0] == "struct":
        out, off = [], 0
        for n, s in l[1]:
            out.append((n, s, off))
            off += lsize(s)
        return out
    if l[0] == "union":
        return [(n, s, 0) for n, s in l[1]]
    if l[0] == "array":
        w = lsize(l[1])
        return [(i, l[1], i * w) for i in range(l[2])]
    return [(n, s, o) for n, s, o in l[2]]


def leaf_paths(l, base=0, path=()):
    """-> [(path, leaf, absolute offset)]"""
    if is_leaf(l):
        return [(path, l, base)]
    out = []
    for k, s, o in fields(l):
        out.extend(leaf_paths(s, base + o, path + (k,)))
    return out


def leaf_value(leaf, bits):
    """Interpret bits (already masked to the leaf width) in the leaf's shape."""
    if leaf[0] == "u":
        return bits
    if leaf[0] == "s":
        return norm(bits, leaf[1], True)
    return norm(bits, leaf[2], leaf[3])


def extract(l, raw):
    """Model view of raw as nested python values."""
    w = lsize(l)
    raw &= (1 << w) - 1
    if is_leaf(l):
        return leaf_value(l, raw)
    if l[0] == "array":
        return [extract(s, raw >> o) for _, s, o in fields(l)]
    return {k: extract(s, raw >> o) for k, s, o in fields(l)}


_cache = {}


def real(l):
    from amaranth.hdl import unsigned, signed
    from amaranth.lib import data, enum as aenum
    if l[0] == "u":
        return unsigned(l[1])
    if l[0] == "s":
        return signed(l[1])
    if l[0] == "enum":
        key = (tuple(l[1]), l[2], l[3])
        if key not in _cache:
            ns = {"aenum": aenum, "signed": signed, "unsigned": unsigned}
            body = "\n".join(f"    M{'n' if v < 0 else ''}{abs(v)} = {v}" for v in l[1])
            sh = f"signed({l[2]})" if l[3] else f"unsigned({l[2]})"
            exec(f"class E{len(_cache)}(aenum.Enum, shape={sh}):\n{body}\nresult = E{len(_cache)}", ns)
            _cache[key] = ns["result"]
        return _cache[key]
    if l[0] == "struct":
        return data.StructLayout({n: real(s) for n, s in l[1]})
    if l[0] == "union":
        return data.UnionLayout({n: real(s) for n, s in l[1]})
    if l[0] == "array":
        return data.ArrayLayout(real(l[1]), l[2])
    return data.FlexibleLayout(l[1], {n: data.Field(real(s), o) for n, s, o in l[2]})


class V(Exception):
    def __init__(self, mech, **detail):
        self.mech, self.detail = mech, detail


def raws_for(l, rng):
    n = lsize(l)
    if n <= 10:
        return list(range(1 << n))
    return [0, (1 << n) - 1] + [rng.getrandbits(n) for _ in range(62)]


def read_back(c, l, path):
    """Read a nested field of a data.Const following path; returns python value (enum -> int)."""
    obj = c
    for k in path:
        obj = obj[k]
    return obj


def norm_read(v):
    if isinstance(v, pyenum.Enum):
        return v.value
    return v


def valid_enum_bits(leaf, bits):
    return leaf_value(leaf, bits) in leaf[1]


def check_static(l, rng, out):
    from amaranth.hdl import Shape, Const as HConst, unsigned
    from amaranth.lib import data
    L = real(l)
    if is_leaf(l):
        return
    size = lsize(l)
    if L.size != size:
        raise V("layout-size", got=L.size, expected=size)
    if Shape.cast(L) != unsigned(size):
        raise V("layout-shape-cast", got=repr(Shape.cast(L)))
    for k, s, o in fields(l):
        f = L[k]
        if f.offset != o or f.width != lsize(s):
            raise V("field-placement", key=k, got=[f.offset, f.width], expected=[o, lsize(s)])
    check_mapping_not_aliased(l, rng, out)
    lp = leaf_paths(l)
    for raw in raws_for(l, rng):
        c = L.from_bits(raw)
        out["evaluations"] += 1
        if c.as_bits() != raw:
            raise V("from_bits-as_bits", raw=raw, got=c.as_bits())
        hc = HConst.cast(c)
        if hc.value != raw or hc.shape() != Shape.cast(L):
            raise V("const-cast-of-from_bits", raw=raw, got=hc.value, shape=repr(hc.shape()))
        c2 = L.const(c)
        if HConst.cast(c2).value != raw:
            raise V("const-of-const", raw=raw)
        for path, leaf, off in lp:
            w = lsize(leaf)
            bits = (raw >> off) & ((1 << w) - 1)
            if leaf[0] == "enum" and not valid_enum_bits(leaf, bits):
                out["extra"]["skipped_invalid_enum_bits"] += 1
                continue
            try:
                got = norm_read(read_back(c, l, path))
            except Exception as e:
                if exc_origin(e) != "repo":
                    raise
                raise V("field-read-exception:" + leaf[0] + (":signed" if leaf[0] == "enum" and leaf[3] else ""),
                        raw=raw, path=list(path), exception=repr(e)[:200])
            exp = leaf_value(leaf, bits)
            out["extra"]["fields_read"] += 1
            if got != exp:
                raise V("field-read-back", raw=raw, path=list(path), got=got, expected=exp, leaf=leaf)


def check_mapping_not_aliased(l, rng, out):
    """The placement declared when the layout was constructed stays the layout's placement: the mapping handed to
    the constructor is edited afterwards (a field table extended step by step, a variant made by changing one
    entry) and the layout built earlier is checked again."""
    from amaranth.lib import data
    if l[0] not in ("struct", "union", "flex"):
        return
    if l[0] == "flex":
        table = {n: data.Field(real(s), o) for n, s, o in l[2]}
        L = data.FlexibleLayout(l[1], table)
    else:
        table = {n: real(s) for n, s in l[1]}
        L = (data.StructLayout if l[0] == "struct" else data.UnionLayout)(table)
    before = [(k, L[k].offset, L[k].width) for k, _s, _o in fields(l)]
    size, keys = L.size, [k for k, _f in L]
    names = list(table)
    edit = rng.choice(["add", "remove", "replace", "reorder"])
    if edit == "add" or not names:
        table["zz_added_later"] = data.Field(real(["u", 1]), 0) if l[0] == "flex" else real(["u", 3])
    elif edit == "remove":
        del table[names[0]]
    elif edit == "replace":
        table[names[-1]] = data.Field(real(["u", 1]), 0) if l[0] == "flex" else real(["u", 7])
    else:
        first = table.pop(names[0])
        table[names[0]] = first
    out["hist"]["constructor-mapping-edited:" + edit] = out["hist"].get("constructor-mapping-edited:" + edit, 0) + 1
    try:
        after = [(k, L[k].offset, L[k].width) for k, _s, _o in fields(l)]
        size2, keys2 = L.size, [k for k, _f in L]
    except Exception as e:
        if exc_origin(e) != "repo":
            raise
        raise V("layout-changed-when-the-constructor-mapping-was-edited", edit=edit, exception=repr(e)[:200])
    if after != before or size2 != size or keys2 != keys:
        raise V("layout-changed-when-the-constructor-mapping-was-edited", edit=edit, before=before, after=after,
                fields_before=keys, fields_after=keys2)


def array_nodes(l, base=0, path=()):
    """-> [(path, array layout node, absolute offset)] for every array inside l (including l)."""
    out = []
    if is_leaf(l):
        return out
    if l[0] == "array":
        out.append((path, l, base))
    for k, s, o in fields(l):
        out.extend(array_nodes(s, base + o, path + (k,)))
    return out


SLICES = [slice(None, None, 2), slice(None, None, -1), slice(None, None, -2), slice(1, None, 2), slice(None, None, 3),
          slice(0, 2), slice(1, 3), slice(None, -1), slice(2, 1), slice(-1, None, -2)]


def check_array_slices(l, rng, out):
    """Slicing a constant (or a view) of array layout with any stride gives the array of the selected
    elements, exactly as slicing a Python list does."""
    L = real(l)
    if is_leaf(l):
        return
    for apath, arr, aoff in array_nodes(l)[:3]:
        n = arr[2]
        ew = lsize(arr[1])
        for raw in raws_for(l, rng)[:6]:
            c = L.from_bits(raw)
            sub = c
            for k in apath:
                sub = sub[k]
            elems = [((raw >> (aoff + i * ew)) & ((1 << ew) - 1)) for i in range(n)]
            for sl in SLICES:
                exp = elems[sl]
                try:
                    got = sub[sl]
                except Exception as e:
                    if exc_origin(e) != "repo":
                        raise
                    if not exp:
                        continue        # an empty selection may be refused
                    raise V("const-array-slice-exception", raw=raw, path=list(apath), slice=repr(sl), exception=repr(e)[:200])
                out["evaluations"] += 1
                out["extra"]["array_slices"] += 1
                if len(got) != len(exp):
                    raise V("const-array-slice-length", raw=raw, path=list(apath), slice=repr(sl), got=len(got), expected=len(exp))
                bits = got.as_bits()
                expbits = sum(e << (i * ew) for i, e in enumerate(exp))
                if bits != expbits:
                    raise V("const-array-slice-elements", raw=raw, path=list(apath), slice=repr(sl), got=bits, expected=expbits)


def gen_init(l, rng, allow_hconst=True):
    """-> (init object description, list of (path-of-assignment-order leaf writes)) as IR:
    ['leaf', value] | ['hconst', value, width, signed] | ['map', [[key, init]...]] | ['seq', [init...]] | ['none']"""
    if is_leaf(l):
        if l[0] == "enum":
            return ["leaf", rng.choice(l[1])]
        w, s = (l[1], l[0] == "s")
        if allow_hconst and rng.random() < 0.25:
            cw = rng.choice([1, 2, 3, 5, 7])
            cs = rng.random() < 0.5
            v = rng.randrange(-(1 << (cw - 1)), 1 << (cw - 1)) if cs else rng.randrange(0, 1 << cw)
            return ["hconst", v, cw, cs]
        if w == 0:
            return ["leaf", 0]
        return ["leaf", rng.randrange(-(1 << (w - 1)), 1 << (w - 1)) if s else rng.randrange(0, 1 << w)]
    fs = fields(l)
    if not fs:
        return rng.choice([["none"], ["map", []]])
    if l[0] == "array" and rng.random() < 0.7:
        n = rng.randrange(0, len(fs) + 1)
        return ["seq", [gen_init(fs[i][1], rng, allow_hconst) for i in range(n)]]
    ks = list(range(len(fs)))
    rng.shuffle(ks)
    ks = ks[:rng.randrange(0, len(ks) + 1)]
    if l[0] == "union" and ks:
        ks = ks[:1]      # documented: at most one field of a union may be initialised
    return ["map", [[fs[i][0], gen_init(fs[i][1], rng, allow_hconst)] for i in ks]]


def real_init(l, ini):
    from amaranth.hdl import Const as HConst, Shape
    if ini[0] == "leaf":
        if l[0] == "enum":
            return real(l)(ini[1])
        return ini[1]
    if ini[0] == "hconst":
        return HConst(ini[1], Shape(ini[2], ini[3]))
    if ini[0] == "none":
        return None
    if ini[0] == "seq":
        sub = fields(l)
        return [real_init(sub[i][1], x) for i, x in enumerate(ini[1])]
    sub = {k: s for k, s, o in fields(l)}
    return {k: real_init(sub[k], x) for k, x in ini[1]}


def model_const(l, ini):
    """Bits of L.const(init): all-zero, each listed field assigned in order."""
    w = lsize(l)
    if ini[0] in ("leaf", "hconst"):
        return ini[1] & ((1 << w) - 1)
    if ini[0] == "none":
        return 0
    v = 0
    fs = fields(l)
    items = list(enumerate(ini[1])) if ini[0] == "seq" else ini[1]
    tab = {k: (s, o) for k, s, o in fs}
    for k, x in items:
        s, o = tab[k]
        m = ((1 << lsize(s)) - 1) << o
        v = (v & ~m) | ((model_const(s, x) << o) & m)
    return v


def check_const(l, rng, out):
    from amaranth.hdl import Const as HConst
    if is_leaf(l):
        return
    L = real(l)
    for _ in range(6):
        ini = gen_init(l, rng)
        try:
            c = L.const(real_init(l, ini))
        except Exception as e:
            if exc_origin(e) != "repo":
                raise
            raise V("const-exception", init=ini, exception=repr(e)[:200])
        out["evaluations"] += 1
        exp = model_const(l, ini)
        got = c.as_bits()
        if got != exp:
            raise V("const-bits" + (":hconst-initialiser" if "hconst" in repr(ini) else ""), init=ini, got=got, expected=exp)
        if HConst.cast(c).value != exp:
            raise V("const-cast-value", init=ini)
        # reading the fields back returns the given values (as interpreted in the field's shape)
        ex = extract(l, exp)
        for path, leaf, off in leaf_paths(l):
            bits = (exp >> off) & ((1 << lsize(leaf)) - 1)
            if leaf[0] == "enum" and not valid_enum_bits(leaf, bits):
                continue
            try:
                gv = norm_read(read_back(c, l, path))
            except Exception as e:
                if exc_origin(e) != "repo":
                    raise
                raise V("field-read-exception:" + leaf[0] + (":signed" if leaf[0] == "enum" and leaf[3] else ""),
                        init=ini, path=list(path), exception=repr(e)[:200])
            if gv != leaf_value(leaf, bits):
                raise V("const-field-read-back", init=ini, path=list(path), got=gv, expected=leaf_value(leaf, bits))


def view_path(view, path):
    obj = view
    for k in path:
        obj = obj[k]
    return obj


def build_view_module(l):
    """Module with: one comb output per leaf field of the view `sig`; a register `reg` loaded with
    `rawin` (load) or assigned through the field selected by `sel` with `vin`; `tbv` for ctx.set."""
    from amaranth.hdl import Module, Signal, Shape, ClockDomain, Value
    L = real(l)
    lp = [x for x in leaf_paths(l)]
    size = lsize(l)
    m = Module()
    cd = ClockDomain("sync", reset_less=True)
    m.domains.sync = cd
    sig = Signal(L)                     # read side
    reg = Signal(L)                     # written by the circuit
    tbv = Signal(L)                     # written by ctx.set
    outs = []
    for path, leaf, off in lp:
        w = lsize(leaf)
        signed_ = leaf[0] == "s" or (leaf[0] == "enum" and leaf[3])
        o = Signal(Shape(w, signed_))
        m.d.comb += o.eq(view_path(sig, path))
        outs.append(o)
    sel = Signal(range(len(lp) + 1))
    vin = Signal(8)
    load = Signal()
    rawin = Signal(size)
    with m.If(load):
        m.d.sync += Value.cast(reg).eq(rawin)
    with m.Else():
        with m.Switch(sel):
            for i, (path, leaf, off) in enumerate(lp):
                with m.Case(i):
                    m.d.sync += Value.cast(view_path(reg, path)).eq(vin)
    return m, cd, sig, reg, tbv, outs, sel, vin, load, rawin, lp


def check_synth(l, rng, out):
    """The same view module through the backend: the emitted RTLIL, evaluated independently, reads
    every field as the reinterpreted slice and a field assignment changes only that field's bits."""
    from amaranth.hdl import Value
    from amaranth.hdl._ir import PortDirection as PD
    from amaranth.back import rtlil
    from ..rtlil import parse as P, eval as E
    if is_leaf(l) or lsize(l) == 0:
        return
    m, cd, sig, reg, tbv, outs, sel, vin, load, rawin, lp = build_view_module(l)
    if not lp:
        return
    size = lsize(l)
    regout = Value.cast(reg)
    ports = {"sig": (Value.cast(sig), PD.Input), "sel": (sel, PD.Input), "vin": (vin, PD.Input), "load": (load, PD.Input),
             "rawin": (rawin, PD.Input), "clk": (cd.clk, PD.Input), "reg": (regout, PD.Output)}
    for k, o in enumerate(outs):
        ports[f"o{k}"] = (o, PD.Output)
    try:
        ev = E.Evaluator(P.parse(rtlil.convert(m, ports=ports, emit_src=False)))
    except (P.ParseError, E.EvalError) as ex:
        raise V("synthesis-rtlil-unreadable", error=str(ex)[:200])
    for n in ("sel", "vin", "load", "rawin", "clk", "sig"):
        try:
            ev.set(n, 0)
        except E.EvalError:
            pass
    ev.step()
    raws = raws_for(l, rng)
    if len(raws) > 32:
        raws = rng.sample(raws, 32)
    for raw in raws:
        ev.set("sig", raw)
        ev.step()
        for k, (path, leaf, off) in enumerate(lp):
            w = lsize(leaf)
            if w == 0:
                continue
            exp = (raw >> off) & ((1 << w) - 1)
            gv, gx = ev.get(f"o{k}")
            out["extra"]["synth_field_reads"] += 1
            if gx or gv != exp:
                raise V("view-field-read-in-netlist", raw=raw, path=list(path), got=gv, undef=gx, expected=exp)
    for raw in raws[:12]:
        i = rng.randrange(len(lp))
        path, leaf, off = lp[i]
        w = lsize(leaf)
        v = rng.getrandbits(8)
        exp = (raw & ~(((1 << w) - 1) << off)) | ((v & ((1 << w) - 1)) << off)
        ev.set("load", 1)
        ev.set("rawin", raw)
        ev.step()
        ev.set("clk", 1); ev.step(); ev.set("clk", 0); ev.step()
        ev.set("load", 0)
        ev.set("sel", i)
        ev.set("vin", v)
        ev.step()
        ev.set("clk", 1); ev.step(); ev.set("clk", 0); ev.step()
        gv, gx = ev.get("reg")
        out["extra"]["synth_field_writes"] += 1
        if gx or gv != exp:
            raise V("view-field-assignment-in-netlist", raw=raw, path=list(path), value=v, got=gv, undef=gx, expected=exp)


def check_sim(l, rng, out):
    """View fields in simulation: read == slice reinterpreted; write through a field (circuit and
    ctx.set) changes only that field."""
    from amaranth.hdl import Value
    from amaranth.sim import Simulator
    if is_leaf(l) or lsize(l) == 0:
        return
    m, cd, sig, reg, tbv, outs, sel, vin, load, rawin, lp = build_view_module(l)
    if not lp:
        return
    size = lsize(l)
    sim = Simulator(m)
    raws = raws_for(l, rng)
    if len(raws) > 64:
        raws = rng.sample(raws, 64)
    bad = []

    async def tb(ctx):
        for raw in raws:
            ctx.set(Value.cast(sig), raw)
            for (path, leaf, off), o in zip(lp, outs):
                w = lsize(leaf)
                exp = leaf_value(leaf, (raw >> off) & ((1 << w) - 1)) if leaf[0] != "enum" else norm((raw >> off) & ((1 << w) - 1), w, leaf[3])
                got = ctx.get(o)
                out["evaluations"] += 1
                out["extra"]["view_reads"] += 1
                if got != exp:
                    bad.append(("view-field-read", dict(raw=raw, path=list(path), got=got, expected=exp)))
                    return
        for raw in raws[:24]:
            i = rng.randrange(len(lp))
            path, leaf, off = lp[i]
            w = lsize(leaf)
            v = rng.getrandbits(8)
            exp = (raw & ~(((1 << w) - 1) << off)) | ((v & ((1 << w) - 1)) << off)
            # circuit
            ctx.set(load, 1)
            ctx.set(rawin, raw)
            ctx.set(cd.clk, 1)
            ctx.set(cd.clk, 0)
            ctx.set(load, 0)
            ctx.set(sel, i)
            ctx.set(vin, v)
            ctx.set(cd.clk, 1)
            ctx.set(cd.clk, 0)
            got = ctx.get(Value.cast(reg))
            out["extra"]["view_writes"] += 1
            if got != exp:
                bad.append(("view-field-assignment-circuit", dict(raw=raw, path=list(path), value=v, got=got, expected=exp)))
                return
            # testbench write
            ctx.set(Value.cast(tbv), raw)
            ctx.set(Value.cast(view_path(tbv, path)), v)
            got = ctx.get(Value.cast(tbv))
            if got != exp:
                bad.append(("view-field-assignment-ctx-set", dict(raw=raw, path=list(path), value=v, got=got, expected=exp)))
                return
        # one ctx.set through a reversed / strided slice of an array view: every selected element is
        # written (several pieces of the same underlying signal in one write)
        for apath, arr, aoff in array_nodes(l)[:2]:
            n, ew = arr[2], lsize(arr[1])
            if n < 2 or ew == 0 or not is_leaf(arr[1]) or arr[1][0] == "enum":
                continue
            for sl in (slice(None, None, -1), slice(None, None, 2), slice(1, None, 2)):
                idx = list(range(n))[sl]
                raw = raws[0]
                vals = [rng.getrandbits(ew) for _ in idx]
                sgn = arr[1][0] == "s"
                setv = [norm(x, ew, sgn) for x in vals]
                ctx.set(Value.cast(tbv), raw)
                target = view_path(tbv, apath)[sl] if apath else tbv[sl]
                ctx.set(target, setv)
                exp = raw
                for i, x in zip(idx, vals):
                    m_ = ((1 << ew) - 1) << (aoff + i * ew)
                    exp = (exp & ~m_) | (x << (aoff + i * ew))
                got = ctx.get(Value.cast(tbv))
                out["extra"]["view_writes"] += 1
                if got != exp:
                    bad.append(("view-array-slice-assignment-ctx-set", dict(raw=raw, path=list(apath), slice=repr(sl), values=vals, got=got, expected=exp)))
                    return
    sim.add_testbench(tb)
    sim.run()
    if bad:
        raise V(bad[0][0], **bad[0][1])
    check_dynamic_element_fields(l, rng, out, tbv, size)


def check_dynamic_element_fields(l, rng, out, tbv, size):
    """Testbench writes and reads through an array view indexed by a *signal*, into a field of the selected element
    (a part select with enclosing slices): exactly that field of that element changes."""
    from amaranth.hdl import Signal, Value, Module
    from amaranth.sim import Simulator
    todo = []
    # arrays of plain signed/unsigned elements read through a *signal* index: value and signedness of the element
    for apath, arr, aoff in array_nodes(l):
        n, ew = arr[2], lsize(arr[1])
        if n >= 1 and ew > 0 and is_leaf(arr[1]) and arr[1][0] in ("u", "s"):
            from amaranth.hdl import Const as _C
            base = view_path(tbv, apath) if apath else tbv
            for i in range(n):
                raw = rng.getrandbits(size) | (((1 << ew) - 1) << (aoff + i * ew) if rng.random() < 0.5 else 0)
                elem = Value.cast(base[_C(i, range(max(n, 2)))])
                exp = leaf_value(arr[1], (raw >> (aoff + i * ew)) & ((1 << ew) - 1))
                m0 = Module()
                sim0 = Simulator(m0)
                res = []

                async def tb0(ctx, elem=elem, raw=raw):
                    ctx.set(Value.cast(tbv), raw)
                    res.append(ctx.get(elem))
                sim0.add_testbench(tb0)
                sim0.run()
                out["evaluations"] += 1
                out["hist"]["dynamic-index-leaf-element-reads"] = out["hist"].get("dynamic-index-leaf-element-reads", 0) + 1
                if elem.shape().signed != (arr[1][0] == "s") or res[0] != exp:
                    raise V("dynamic-index-leaf-element-read", path=list(apath) + ["[idx]"], index=i, raw=raw, got=res[0],
                            expected=exp, shape=repr(elem.shape()))
    for apath, arr, aoff in array_nodes(l):
        n, ew = arr[2], lsize(arr[1])
        if n < 2 or ew == 0 or is_leaf(arr[1]):
            continue
        sub = [x for x in leaf_paths(arr[1]) if lsize(x[1]) > 0 and x[1][0] != "enum"]
        if sub:
            todo.append((apath, arr, aoff, n, ew, sub))
    if not todo:
        return
    idx = Signal(range(max(t[3] for t in todo)), name="dyn_idx")
    m = Module()
    keep = Signal()
    m.d.comb += keep.eq(Value.cast(tbv).any() ^ idx.any())
    sim = Simulator(m)
    bad = []

    async def tb(ctx):
        for apath, arr, aoff, n, ew, sub in todo[:3]:
            for i in range(n):
                spath, leaf, off = rng.choice(sub)
                w = lsize(leaf)
                raw, v = rng.getrandbits(size), rng.getrandbits(8)
                ctx.set(Value.cast(tbv), raw)
                ctx.set(idx, i)
                base = view_path(tbv, apath) if apath else tbv
                target = view_path(base[idx], spath)
                pos = aoff + i * ew + off
                got_field = ctx.get(Value.cast(target)) & ((1 << w) - 1)
                if got_field != (raw >> pos) & ((1 << w) - 1):
                    bad.append(("dynamic-element-field-read", dict(path=list(apath) + ["[idx]"] + list(spath), index=i, raw=raw, got=got_field,
                                                                   expected=(raw >> pos) & ((1 << w) - 1))))
                    return
                ctx.set(Value.cast(target), v & ((1 << w) - 1) if leaf[0] != "s" else norm(v, w, True))
                exp = (raw & ~(((1 << w) - 1) << pos)) | ((v & ((1 << w) - 1)) << pos)
                got = ctx.get(Value.cast(tbv))
                out["evaluations"] += 1
                out["extra"]["view_writes"] += 1
                if got != exp:
                    bad.append(("dynamic-element-field-assignment-ctx-set", dict(path=list(apath) + ["[idx]"] + list(spath), index=i, raw=raw,
                                                                                 value=v, got=got, expected=exp)))
                    return
    sim.add_testbench(tb)
    sim.run()
    out["hist"]["dynamic-element-field-cases"] = out["hist"].get("dynamic-element-field-cases", 0) + 1
    if bad:
        raise V(bad[0][0], **bad[0][1])


def check_mixed_drivers(l, rng, out):
    """Fields of one view driven from different places (some combinationally, some from a register, some not at
    all) over an underlying signal with a non-zero initial value: assigning one field never changes another, and
    undriven fields keep their initial bits - observed after every input change and clock edge."""
    from amaranth.hdl import Module, Signal, ClockDomain, Value, Cat
    from amaranth.lib import data
    from amaranth.sim import Simulator
    if is_leaf(l) or lsize(l) == 0:
        return
    lp = [x for x in leaf_paths(l) if lsize(x[1]) > 0]
    spans = sorted((off, off + lsize(leaf)) for _p, leaf, off in lp)
    if len(lp) < 2 or any(a[1] > b[0] for a, b in zip(spans, spans[1:])):
        return                    # (overlapping fields - unions - have no per-field owner)
    size = lsize(l)
    init = rng.getrandbits(size) | 1 << rng.randrange(size)
    m = Module()
    cd = ClockDomain("sync", reset_less=True)
    m.domains.sync = cd
    if rng.random() < 0.5 and size >= 3:
        # the view sits on a concatenation of three or more separate signals
        cuts = sorted(rng.sample(range(1, size), min(size - 1, rng.randrange(2, 5))))
        bounds = [0] + cuts + [size]
        pieces = [Signal(hi - lo, init=(init >> lo) & ((1 << (hi - lo)) - 1), name=f"piece{k}") for k, (lo, hi) in enumerate(zip(bounds, bounds[1:]))]
        raw = Cat(*pieces)
        out["hist"]["mixed-driver-views:over-a-concatenation"] = out["hist"].get("mixed-driver-views:over-a-concatenation", 0) + 1
    else:
        raw = Signal(size, init=init, name="raw")
    view = data.View(real(l), raw)
    vin = Signal(8, name="vin")
    roles = []
    for path, leaf, off in lp:
        role = rng.choice(["comb", "sync", "none"]) if leaf[0] != "enum" else "none"
        roles.append(role)
        tgt = Value.cast(view_path(view, path))
        if role == "comb":
            m.d.comb += tgt.eq(vin)
        elif role == "sync":
            m.d.sync += tgt.eq(vin + 1)
    if "comb" not in roles or roles.count("none") + roles.count("sync") == 0:
        return
    sim = Simulator(m)
    bad = []
    out["hist"]["mixed-driver-views"] = out["hist"].get("mixed-driver-views", 0) + 1

    async def tb(ctx):
        held = {i: None for i, r in enumerate(roles) if r == "sync"}
        v = 0
        for step in range(12):
            if rng.random() < 0.6:
                v = rng.getrandbits(8)
                ctx.set(vin, v)
                what = "input change"
            else:
                ctx.set(cd.clk, 1)
                for i in held:
                    held[i] = (v + 1) & 0xff
                ctx.set(cd.clk, 0)
                what = "clock edge"
            got = ctx.get(raw)
            out["evaluations"] += 1
            for i, ((path, leaf, off), role) in enumerate(zip(lp, roles)):
                w = lsize(leaf)
                fm = (1 << w) - 1
                exp = v & fm if role == "comb" else ((init >> off) & fm if role == "none" or held[i] is None else held[i] & fm)
                if (got >> off) & fm != exp:
                    bad.append(dict(step=step, after=what, path=list(path), driven=role, roles=roles, initial=init, vin=v,
                                    got=(got >> off) & fm, expected=exp, underlying=got))
                    return
    sim.add_testbench(tb)
    sim.run()
    if bad:
        raise V("view-field-changed-by-assignment-to-another-field:" + bad[0]["driven"] + "-field", **bad[0])


# ---- enums -----------------------------------------------------------------------------------------
def check_enum_laws(rng, out):
    from amaranth.hdl import Const as HConst, Shape
    leaf = gen_leaf(rng)
    while leaf[0] != "enum":
        leaf = gen_leaf(rng)
    E = real(leaf)
    w, s = leaf[2], leaf[3]
    if Shape.cast(E) != Shape(w, s):
        raise V("enum-shape", got=repr(Shape.cast(E)))
    for v in leaf[1]:
        out["evaluations"] += 1
        c = E.const(E(v))
        hv = HConst.cast(c)
        if hv.value != v or hv.shape() != Shape(w, s):
            raise V("enum-const-value", member=v, got=hv.value, shape=repr(hv.shape()))
        back = E.from_bits(hv.value)
        if back is not E(v):
            raise V("enum-from_bits-round-trip", member=v, got=repr(back))
        if HConst.cast(E.const(E.from_bits(v))).value != v:
            raise V("enum-const-from_bits-law", raw=v)
    out["fps"].add(fp(["enum", leaf]))


def check_flags(rng, out):
    """FlagView operators vs a Python enum.Flag twin, simulated."""
    from amaranth.hdl import Module, Signal, Value
    from amaranth.lib import enum as aenum
    from amaranth.sim import Simulator
    width = rng.choice([3, 4, 5])
    nm = rng.randrange(1, 5)
    members = {}
    for j in range(nm):
        if rng.random() < 0.7:
            v = 1 << rng.randrange(width)
        else:
            v = rng.randrange(1, 1 << width)
        members[f"F{j}"] = v
    boundary = rng.choice([None, None, "STRICT", "CONFORM", "KEEP", "EJECT"])
    if boundary in ("KEEP", "EJECT"):
        # Python derives "all bits" from the highest member, Amaranth from the shape: compare only
        # where both notions coincide (shape width == bit length of the highest flag)
        width = max(members.values()).bit_length()
    ns = {"aenum": aenum, "pyenum": pyenum}
    body = "\n".join(f"    {k} = {v}" for k, v in members.items())
    bkw = f", boundary=pyenum.{boundary}" if boundary else ""
    try:
        exec(f"class A(aenum.Flag, shape={width}{bkw}):\n{body}\nclass P(pyenum.Flag{bkw}):\n{body}\n", ns)
    except Exception as e:
        out["hist"]["flag-class-rejected"] = out["hist"].get("flag-class-rejected", 0) + 1
        return
    A, P = ns["A"], ns["P"]
    cfg = {"width": width, "members": members, "boundary": boundary}
    # valid operand values: every combination of members Python accepts
    vals = set([0])
    for r in range(1, nm + 1):
        for combo in itertools.combinations(members.values(), r):
            x = 0
            for c in combo:
                x |= c
            vals.add(x)
    ok_vals = []
    for x in sorted(vals):
        try:
            P(x)
            ok_vals.append(x)
        except ValueError:
            pass
    m = Module()
    a = Signal(A)
    b = Signal(A)
    res = {}
    for name, expr in (("inv", lambda: ~a), ("and", lambda: a & b), ("or", lambda: a | b), ("xor", lambda: a ^ b),
                       ("andnot", lambda: a & ~b), ("rand", lambda: A(members["F0"]) & a),
                       # a plain member on the left (reflected operators) and on the right, for every operator
                       ("ror", lambda: A(members["F0"]) | a), ("rxor", lambda: A(members["F0"]) ^ a),
                       ("and-member", lambda: a & A(members["F0"])), ("or-member", lambda: a | A(members["F0"])),
                       ("xor-member", lambda: a ^ A(members["F0"])), ("rxor-inv", lambda: A(members["F0"]) ^ ~a)):
        o = Signal(width)
        m.d.comb += o.eq(Value.cast(expr()))
        res[name] = o
    sim = Simulator(m)
    bad = []
    mask = (1 << width) - 1

    def py(fn):
        try:
            r = fn()
            return (r.value if isinstance(r, pyenum.Enum) else int(r)) & mask
        except (ValueError, TypeError):
            return None

    async def tb(ctx):
        for x in ok_vals:
            for y in ok_vals:
                ctx.set(Value.cast(a), x)
                ctx.set(Value.cast(b), y)
                px, pyv = P(x), P(y)
                exp = {"inv": py(lambda: ~px), "and": py(lambda: px & pyv), "or": py(lambda: px | pyv),
                       "xor": py(lambda: px ^ pyv), "andnot": py(lambda: px & ~pyv),
                       "rand": py(lambda: P(members["F0"]) & px), "ror": py(lambda: P(members["F0"]) | px),
                       "rxor": py(lambda: P(members["F0"]) ^ px), "and-member": py(lambda: px & P(members["F0"])),
                       "or-member": py(lambda: px | P(members["F0"])), "xor-member": py(lambda: px ^ P(members["F0"])),
                       "rxor-inv": py(lambda: P(members["F0"]) ^ ~px)}
                for name, o in res.items():
                    if exp[name] is None:
                        continue
                    got = ctx.get(o)
                    out["evaluations"] += 1
                    out["extra"]["flag_ops"] += 1
                    if got != exp[name]:
                        bad.append(dict(op=name, a=x, b=y, flagview=got, python=exp[name], config=cfg))
                        return
    sim.add_testbench(tb)
    sim.run()
    out["fps"].add(fp(["flag", cfg]))
    multi = any(v & (v - 1) for v in members.values())
    out["hist"]["flag-class:" + ("multi-bit-member" if multi else "single-bit-members") + ":" + str(boundary)] = \
        out["hist"].get("flag-class:" + ("multi-bit-member" if multi else "single-bit-members") + ":" + str(boundary), 0) + 1
    if bad:
        raise V("flagview-operator-vs-python-flag:" + bad[0]["op"], **bad[0])


def shards(tier, seed):
    n = 1600 if tier == "quick" else 100000
    return [{"seed": seed, "shard": i, "layouts": n // NSHARDS, "depth": 3 if tier == "quick" else 4} for i in range(NSHARDS)]


def kind_hist(l, h):
    h[l[0]] = h.get(l[0], 0) + 1
    if not is_leaf(l):
        for k, s, o in fields(l):
            kind_hist(s, h)
        if l[0] == "array" and l[2] == 0:
            kind_hist(l[1], h)


def run_shard(spec):
    instrument.install_slot_invariant()
    out = {"evaluations": 0, "fps": set(), "hist": {}, "violations": [], "samples": [], "exhaustive": [],
           "extra": {"fields_read": 0, "view_reads": 0, "view_writes": 0, "flag_ops": 0, "skipped_invalid_enum_bits": 0,
                     "layouts": 0, "synth_field_reads": 0, "synth_field_writes": 0, "array_slices": 0}}
    rng = derive_rng("c15", spec["seed"], spec["shard"])
    for n in range(spec["layouts"]):
        l = gen_layout(rng, rng.randrange(1, spec["depth"] + 1))
        if lsize(l) > 24:
            continue
        out["extra"]["layouts"] += 1
        for label, fn in (("static", lambda: check_static(l, rng, out)), ("const", lambda: check_const(l, rng, out)),
                          ("slices", lambda: check_array_slices(l, rng, out)),
                          ("sim", lambda: check_sim(l, rng, out)), ("mixed-drivers", lambda: check_mixed_drivers(l, rng, out)),
                          ("synth", lambda: check_synth(l, rng, out))):
            try:
                fn()
            except V as v:
                out["violations"].append({"mechanism": v.mech, "detail": dict(v.detail, layout=l, stage=label)})
                break
            except Exception as e:
                if exc_origin(e) != "repo":
                    raise
                out["violations"].append({"mechanism": f"exception:{label}:{type(e).__name__}",
                                          "detail": {"layout": l, "exception": repr(e)[:300]}})
                break
        h = {}
        kind_hist(l, h)
        for k, v in h.items():
            out["hist"]["layout-node:" + k] = out["hist"].get("layout-node:" + k, 0) + v
        if not is_leaf(l) and len(leaf_paths(l)) >= 2:
            out["fps"].add(fp(l))
        if len(out["samples"]) < 1 and not is_leaf(l) and len(leaf_paths(l)) >= 3:
            out["samples"].append({"layout": l, "leaf_offsets": [[list(p), o] for p, _, o in leaf_paths(l)[:8]]})
        if n % 4 == 0:
            for label, fn in (("enum", lambda: check_enum_laws(rng, out)), ("flag", lambda: check_flags(rng, out))):
                try:
                    fn()
                except V as v:
                    out["violations"].append({"mechanism": v.mech, "detail": dict(v.detail, stage=label)})
                except Exception as e:
                    if exc_origin(e) != "repo":
                        raise
                    out["violations"].append({"mechanism": f"exception:{label}:{type(e).__name__}", "detail": {"exception": repr(e)[:300]}})
    out["violations"].extend(instrument.VIOLATIONS)
    instrument.VIOLATIONS.clear()
    out["monitors"] = dict(instrument.COUNTERS)
    out["fps"] = sorted(out["fps"])
    return out


def finalize(m, tier, seed):
    if not m["violations"]:
        for k in ("fields_read", "view_reads", "view_writes", "flag_ops", "synth_field_reads", "synth_field_writes"):
            if m["extra"].get(k, 0) == 0:
                m["inconclusive"].append(f"monitor never reached: {k}")


def replay(rec):
    import json
    d = rec["detail"]
    l = d.get("layout")
    if not l:
        print("replay: enum/flag violations are reproduced by re-running the check with the same VERIF_SEED")
        return 0
    rng = derive_rng("c15-replay")
    out = {"evaluations": 0, "hist": {}, "fps": set(),
           "extra": {"fields_read": 0, "view_reads": 0, "view_writes": 0, "flag_ops": 0, "skipped_invalid_enum_bits": 0,
                     "synth_field_reads": 0, "synth_field_writes": 0, "array_slices": 0}}
    hits = []
    for label, fn in (("static", lambda: check_static(l, rng, out)), ("const", lambda: [check_const(l, rng, out) for _ in range(10)]),
                      ("sim", lambda: check_sim(l, rng, out)), ("mixed-drivers", lambda: check_mixed_drivers(l, rng, out)),
                          ("synth", lambda: check_synth(l, rng, out))):
        try:
            fn()
        except V as v:
            hits.append((label, v.mech, v.detail))
        except Exception as e:
            hits.append((label, type(e).__name__, repr(e)[:200]))
    print(json.dumps(hits, default=str, indent=1)[:2000])
    print("replay:", "VIOLATION reproduced" if hits else "no violation on this tree")
    return 1 if hits else 0
