"""C16 CRC software and hardware agree with the Williams model for all parameters."""
import json
import os

from .. import instrument
from ..common import derive_rng, fp, exc_origin

PROPERTY = "C16"
LEVEL = "exploration"
RULE = ("software: every catalogue entry (157 names) x data widths {1,2,3,4,5,7,8,16,crc_width} x random "
        "word sequences (len 0..40) and random parameter sets (crc_width 1..64, any polynomial/init/"
        "reflections/xor, data_width 1..24): Parameters.compute == bit-serial Williams model; every "
        "catalogue entry: compute(b'123456789') == frozen published check value. hardware (simulated "
        "Processor): catalogue entries and random parameter sets at several data widths, 120..200-cycle "
        "scripts with random idle gaps, start alone, start&valid, restarts mid-message: crc output "
        "compared with the model after every clock edge; trailer tests when data_width divides "
        "crc_width: match_detected after message||own CRC in transmission order, and not after every "
        "single-bit-flipped trailer / random other trailers. distinct/non-trivial = distinct "
        "(parameters, data_width, sequence hash) with at least one word.")
ASSUMPTIONS = ["the 'not after any other trailer' clause is checked only for generator polynomials with the x^0 term (all catalogue entries; otherwise the trailer->register map is not injective)",
               "crcref (this file) is the Williams/Rocksoft model generalised to data words: per-word input reflection, MSB-first shifting",
               "transmission order of the trailer = the CRC register sent most-significant register bit first, grouped into data words in the word bit order the input reflection implies (little-endian words when both reflections are set, big-endian when neither)",
               "published check values frozen in data/crc_published.json (reveng, via the pinned repository)"]
REQUIRED_MONITORS = ["slot_commit"]
MIN_NONTRIVIAL = {"quick": 1500, "thorough": 15000}
NSHARDS = 16
DATA = os.path.join(os.path.dirname(os.path.dirname(os.path.dirname(os.path.abspath(__file__)))), "data", "crc_published.json")


# ---- crcref: bit-serial Williams model ---------------------------------------------------------
def reflect(v, n):
    r = 0
    for i in range(n):
        if (v >> i) & 1:
            r |= 1 << (n - 1 - i)
    return r


class Ref:
    def __init__(self, n, poly, init, refin, refout, xorout, m):
        self.n, self.poly, self.init, self.refin, self.refout, self.xorout, self.m = n, poly, init, refin, refout, xorout, m
        self.mask = (1 << n) - 1

    def word_bits(self, w):
        """Bits of one data word in the order they enter the register."""
        idx = range(self.m) if self.refin else range(self.m - 1, -1, -1)
        return [(w >> i) & 1 for i in idx]

    def feed(self, reg, w):
        for b in self.word_bits(w):
            top = (reg >> (self.n - 1)) & 1
            reg = (reg << 1) & self.mask
            if top ^ b:
                reg ^= self.poly
        return reg

    def out(self, reg):
        return (reflect(reg, self.n) if self.refout else reg) ^ self.xorout

    def compute(self, words):
        reg = self.init
        for w in words:
            reg = self.feed(reg, w)
        return self.out(reg)

    def trailer_words(self, crc_value):
        """The CRC in transmission order as data words (requires m | n)."""
        # register-orientation value whose bits go out MSB first
        v = reflect(crc_value, self.n) if self.refout else crc_value
        stream = [(v >> i) & 1 for i in range(self.n - 1, -1, -1)]
        words = []
        for k in range(0, self.n, self.m):
            chunk = stream[k:k + self.m]
            w = 0
            for j, b in enumerate(chunk):
                pos = j if self.refin else self.m - 1 - j
                w |= b << pos
            words.append(w)
        return words


def selftest():
    """The model reproduces the published check values from the frozen parameters."""
    d = json.load(open(DATA))["entries"]
    for name, e in d.items():
        r = Ref(e["crc_width"], e["polynomial"], e["initial_crc"], e["reflect_input"], e["reflect_output"], e["xor_output"], 8)
        assert r.compute(b"123456789") == e["check"], name
        # equal reflections: trailer is little-/big-endian words
        if e["crc_width"] % 8 == 0 and e["reflect_input"] == e["reflect_output"]:
            c = e["check"]
            tw = r.trailer_words(c)
            exp = list(c.to_bytes(e["crc_width"] // 8, "little" if e["reflect_output"] else "big"))
            assert tw == exp, name
    return len(d)


# ---- workloads -----------------------------------------------------------------------------------
def rand_params(rng):
    n = rng.choice([1, 2, 3, 4, 5, 7, 8, 8, 12, 15, 16, 16, 17, 24, 31, 32, 32, 40, 63, 64])
    mask = (1 << n) - 1
    pick = lambda: rng.choice([0, mask, 1, rng.getrandbits(n), rng.getrandbits(n)])
    return dict(crc_width=n, polynomial=rng.getrandbits(n) | rng.choice([0, 1]), initial_crc=pick(),
                reflect_input=rng.random() < 0.5, reflect_output=rng.random() < 0.5, xor_output=pick())


def algo_of(p):
    from amaranth.lib.crc import Algorithm
    return Algorithm(**p)


def params_of(a):
    return dict(crc_width=a.crc_width, polynomial=a.polynomial, initial_crc=a.initial_crc,
                reflect_input=a.reflect_input, reflect_output=a.reflect_output, xor_output=a.xor_output)


def check_software(p, m, rng, out, nseq, label):
    a = algo_of(p)
    par = a(data_width=m)
    r = Ref(m=m, n=p["crc_width"], poly=p["polynomial"], init=p["initial_crc"], refin=p["reflect_input"],
            refout=p["reflect_output"], xorout=p["xor_output"])
    for k in range(nseq):
        ln = rng.choice([0, 1, 2, 3, rng.randrange(0, 41)])
        words = [rng.choice([0, (1 << m) - 1, rng.getrandbits(m)]) for _ in range(ln)]
        out["evaluations"] += 1
        # (the words are handed over in any form an "iterable of integers" may take)
        forms = ["list", "tuple", "iterator", "generator", "map"] + (["bytes", "bytearray"] if m == 8 else [])
        form = forms[k % len(forms)] if k < len(forms) else rng.choice(forms)
        arg = {"list": lambda: list(words), "tuple": lambda: tuple(words), "iterator": lambda: iter(list(words)),
               "generator": lambda: (w_ for w_ in words), "map": lambda: map(int, words),
               "bytes": lambda: bytes(words), "bytearray": lambda: bytearray(words)}[form]()
        out["hist"]["compute-argument:" + form] = out["hist"].get("compute-argument:" + form, 0) + 1
        # (sometimes through the parameters' `algorithm` property: the same algorithm, re-parametrised)
        via = k % 3 == 2
        got = (par.algorithm(data_width=m) if via else par).compute(arg)
        if via:
            out["hist"]["compute-via-parameters.algorithm"] = out["hist"].get("compute-via-parameters.algorithm", 0) + 1
        exp = r.compute(words)
        if ln:
            out["fps"].add(fp([label, m, words[:6], ln]))
        if got != exp:
            out["violations"].append({"mechanism": "software-compute-mismatch",
                                      "detail": {"params": p, "data_width": m, "words": words, "compute": got, "model": exp, "entry": label,
                                                 "words_given_as": form}})
            return False
    return True


def check_hardware(p, m, rng, out, ncycles, label):
    """Simulated Processor against the model, cycle by cycle; then trailer tests."""
    from amaranth.hdl import Cat
    from amaranth.sim import Simulator
    from amaranth.lib.crc import Processor
    a = algo_of(p)
    par = a(data_width=m)
    r = Ref(m=m, n=p["crc_width"], poly=p["polynomial"], init=p["initial_crc"], refin=p["reflect_input"],
            refout=p["reflect_output"], xorout=p["xor_output"])
    dut = par.create()
    assert isinstance(dut, Processor)
    from amaranth.hdl import Module, ClockDomain
    mod = Module()
    mod.submodules.dut = dut
    cd = ClockDomain("sync")
    mod.domains.sync = cd
    # the processor object may have been elaborated before (converted, or simulated elsewhere): 0, 1 or 2 times
    from amaranth.hdl import Fragment
    prior = rng.choice([0, 0, 1, 1, 2])
    for _ in range(prior):
        Fragment.get(dut, None)
    out["hist"][f"processor-elaborated-before:{prior}"] = out["hist"].get(f"processor-elaborated-before:{prior}", 0) + 1
    sim = Simulator(mod)
    n = p["crc_width"]
    trailer_ok = (n % m == 0)
    viol = []
    stats = out["extra"]

    async def tb(ctx):
        def edge():
            ctx.set(cd.clk, 1)
            ctx.set(cd.clk, 0)

        def drive(start, valid, data):
            ctx.set(Cat(dut.start, dut.valid, dut.data), start | (valid << 1) | (data << 2))
        reg = r.init
        script = []
        if ctx.get(dut.crc) != r.out(reg):
            viol.append(("crc-output-mismatch", dict(cycle=-1, crc=ctx.get(dut.crc), model=r.out(reg))))
            return
        pv = rng.choice([0.3, 0.6, 0.9, 1.0])
        ps = rng.choice([0.02, 0.08, 0.2])
        for cyc in range(ncycles):
            if rng.random() < 0.02:
                # the clock domain's reset held over one edge with nothing valid: the register is back at the
                # algorithm's initial value ("initial value of the CRC register at reset")
                drive(0, 0, 0)
                ctx.set(cd.rst, 1)
                ctx.set(cd.clk, 1)
                ctx.set(cd.clk, 0)
                ctx.set(cd.rst, 0)
                reg = r.init
                script.append(["domain-reset"])
                stats["domain_resets"] = stats.get("domain_resets", 0) + 1
                if ctx.get(dut.crc) != r.out(reg):
                    viol.append(("crc-output-mismatch:after-domain-reset", dict(cycle=cyc, crc=ctx.get(dut.crc), model=r.out(reg), script=script[-12:])))
                    return
            valid = int(rng.random() < pv)
            start = int(rng.random() < ps)
            data = rng.choice([0, (1 << m) - 1, rng.getrandbits(m), rng.getrandbits(m)])
            script.append([start, valid, data])
            drive(start, valid, data)
            ctx.set(cd.clk, 1)
            got_rise = ctx.get(dut.crc)
            ctx.set(cd.clk, 0)
            if valid:
                reg = r.feed(r.init if start else reg, data)
                stats["valid_words"] += 1
                if start:
                    stats["start_and_valid"] += 1
            elif start:
                reg = r.init
                stats["start_alone"] += 1
            else:
                stats["idle_cycles"] += 1
            out["evaluations"] += 1
            got = ctx.get(dut.crc)
            if got != r.out(reg) or got_rise != r.out(reg):
                viol.append(("crc-output-mismatch", dict(cycle=cyc, crc=got, crc_right_after_edge=got_rise, model=r.out(reg), script=script[-12:])))
                return
        if not trailer_ok:
            return
        # trailer tests: message || CRC(message) in transmission order
        for t in range(3):
            msg = [rng.getrandbits(m) for _ in range(rng.randrange(0, 12))]
            with_start = rng.random() < 0.5

            def run_codeword(trailer):
                first = True
                if not with_start or not msg:
                    drive(1, 0, 0)
                    edge()
                    first = False
                for w in msg:
                    drive(1 if first else 0, 1, w)
                    first = False
                    edge()
                    if rng.random() < 0.2:
                        drive(0, 0, rng.getrandbits(m))
                        edge()
                for w in trailer:
                    drive(0, 1, w)
                    edge()
                drive(0, 0, 0)
                return ctx.get(dut.match_detected)
            c = r.compute(msg)
            good = r.trailer_words(c)
            stats["trailers_own"] += 1
            if not run_codeword(good):
                viol.append(("match-not-detected-after-own-crc", dict(message=msg, crc=c, trailer=good, with_start=with_start)))
                return
            nbits = n
            flips = list(range(nbits)) if nbits <= 16 else rng.sample(range(nbits), 12)
            others = []
            for b in flips:
                tw = list(good)
                tw[b // m] ^= 1 << (b % m)
                others.append(tw)
            for _ in range(6):
                tw = [rng.getrandbits(m) for _ in good]
                if tw != good:
                    others.append(tw)
            if not (p["polynomial"] & 1):
                # without the x^0 term the register is not a bijective image of the trailer, so
                # other trailers can legitimately reach the residue: the negative clause is only
                # meaningful for proper generator polynomials
                stats["trailers_other_skipped_degenerate_poly"] = stats.get("trailers_other_skipped_degenerate_poly", 0) + 1
                others = []
            for tw in others:
                stats["trailers_other"] += 1
                if run_codeword(tw):
                    viol.append(("match-detected-after-wrong-trailer", dict(message=msg, crc=c, own_trailer=good, trailer=tw)))
                    return
    sim.add_testbench(tb)
    sim.run()
    for mech, d in viol:
        d.update(params=p, data_width=m, entry=label, processor_elaborated_before=prior)
        out["violations"].append({"mechanism": mech + ("" if p["reflect_input"] == p["reflect_output"] else ":cross-endian"), "detail": d})
    return not viol


def shards(tier, seed):
    return [{"part": i, "parts": NSHARDS, "tier": tier, "seed": seed} for i in range(NSHARDS)]


def run_shard(spec):
    instrument.install_slot_invariant()
    from amaranth.lib.crc import catalog
    out = {"evaluations": 0, "fps": set(), "hist": {}, "violations": [], "samples": [], "exhaustive": [],
           "extra": {"valid_words": 0, "start_and_valid": 0, "start_alone": 0, "idle_cycles": 0,
                     "trailers_own": 0, "trailers_other": 0, "catalogue_entries": 0, "hw_configs": 0}}
    tier, part, parts = spec["tier"], spec["part"], spec["parts"]
    rng = derive_rng("c16", spec["seed"], part)
    pub = json.load(open(DATA))["entries"]
    names = sorted(n for n in dir(catalog) if n.startswith("CRC"))
    try:
        for k, name in enumerate(names):
            if k % parts != part:
                continue
            a = getattr(catalog, name)
            p = params_of(a)
            out["extra"]["catalogue_entries"] += 1
            # published check value
            out["evaluations"] += 1
            if name in pub:
                got = a(data_width=8).compute(b"123456789")
                if got != pub[name]["check"]:
                    out["violations"].append({"mechanism": "catalogue-check-value-mismatch",
                                              "detail": {"entry": name, "compute": got, "published": pub[name]["check"], "params": p}})
            else:
                out["hist"]["catalogue-entry-without-published-value"] = out["hist"].get("catalogue-entry-without-published-value", 0) + 1
            n = p["crc_width"]
            for m in sorted({1, 2, 3, 4, 5, 7, 8, 16, n}):
                if not check_software(p, m, rng, out, 6 if tier == "quick" else 20, name):
                    break
            hw_widths = [8] + [m for m in (1, 2, 4, n) if n % m == 0 and m <= 32]
            if tier == "quick":
                hw_widths = [8, rng.choice(hw_widths[1:])]
            for m in dict.fromkeys(hw_widths):
                out["extra"]["hw_configs"] += 1
                out["hist"][f"hw:data_width={m}"] = out["hist"].get(f"hw:data_width={m}", 0) + 1
                if not check_hardware(p, m, rng, out, 60 if tier == "quick" else 200, name):
                    break
        nrand = (2000 if tier == "quick" else 120000) // parts
        for k in range(nrand):
            p = rand_params(rng)
            m = rng.choice([1, 2, 3, 4, 5, 7, 8, 8, 9, 16, 24, p["crc_width"]])
            check_software(p, m, rng, out, 3, "random")
            key = "sw-random:" + ("equal-reflect" if p["reflect_input"] == p["reflect_output"] else "cross-endian")
            out["hist"][key] = out["hist"].get(key, 0) + 1
        nhw = (160 if tier == "quick" else 6400) // parts
        for k in range(nhw):
            p = rand_params(rng)
            n = p["crc_width"]
            if p["crc_width"] > 32:
                p = rand_params(rng)
                n = p["crc_width"]
            divs = [d for d in range(1, min(n, 16) + 1) if n % d == 0]
            m = rng.choice(divs + divs + [3, 5, 8])
            out["extra"]["hw_configs"] += 1
            key = "hw-random:" + ("equal-reflect" if p["reflect_input"] == p["reflect_output"] else "cross-endian")
            out["hist"][key] = out["hist"].get(key, 0) + 1
            check_hardware(p, m, rng, out, 60 if tier == "quick" else 150, "random")
            if len(out["samples"]) < 1:
                out["samples"].append({"params": p, "data_width": m})
    except Exception as e:
        if exc_origin(e) != "repo":
            raise
        out["violations"].append({"mechanism": f"exception:{type(e).__name__}", "detail": {"exception": repr(e)[:300]}})
    out["violations"].extend(instrument.VIOLATIONS)
    instrument.VIOLATIONS.clear()
    out["monitors"] = dict(instrument.COUNTERS)
    out["fps"] = sorted(out["fps"])
    return out


def finalize(m, tier, seed):
    ex = m["extra"]
    if not m["violations"]:
        for k in ("start_and_valid", "start_alone", "trailers_own", "trailers_other"):
            if ex.get(k, 0) == 0:
                m["inconclusive"].append(f"hardware monitor never observed {k}")
    if ex.get("catalogue_entries", 0):
        m["exhaustive"].append(f"all {ex['catalogue_entries']} catalogue names: published check value, software model at 9 data widths, hardware")
