"""C10 Shape casting and constant normalisation are exact and minimal."""
import enum
import itertools

from .. import expr as X
from .. import instrument
from ..common import derive_rng, fp, fits, norm, unify, exc_origin

PROPERTY = "C10"
LEVEL = "exploration"
RULE = ("enumerate: all range(a,b,s) with a,b in [-34,34] (thorough [-70,70]), s in +-{1,2,3,5,7}; "
        "all Const(v, shape) with v in [-300,300] x widths 0..8 (thorough 0..12) x signedness, "
        "Const(v), Const(v, int), Const(v, range); bits_for/ceil_log2 on [-5000,5000] and 2^k+-1 "
        "(k<=200); range-shaped and plain Signal inits; MemoryData init rows. sample: huge ranges, "
        "histories of memory init updates (constructor, .init = rows, .init[i] = v, .init[a:b:s] = rows on "
        "hdl.MemoryData and lib.memory.Memory, plain and enum row shapes) against a wrapping list model after "
        "every step, a quarter read back in simulation (row objects and a read port); "
        "random integer Enum/IntEnum/Flag classes (plain and amaranth.lib.enum without shape), "
        "random Cat/Slice constant trees.  distinct/non-trivial: distinct (kind, arguments) with "
        "at least one element/bit (width>0 or non-empty range).")
ASSUMPTIONS = ["definitional brute-force oracles (vf/instrument.range_shape, common.norm/fits)",
               "enum rule as stated by the property: unify of each member's constant shape"]
REQUIRED_MONITORS = ["contract_const", "contract_shape_cast_range"]
MIN_NONTRIVIAL = {"quick": 1000, "thorough": 5000}
NSHARDS = 16


def shards(tier, seed):
    return [{"part": i, "parts": NSHARDS, "tier": tier, "seed": seed} for i in range(NSHARDS)]


class Ctx:
    def __init__(self):
        self.out = {"evaluations": 0, "fps": set(), "hist": {}, "violations": [], "samples": [],
                    "exhaustive": [], "extra": {}}

    def case(self, kind, args, nontrivial=True):
        self.out["evaluations"] += 1
        self.out["hist"][kind] = self.out["hist"].get(kind, 0) + 1
        if nontrivial:
            self.out["fps"].add(fp([kind, args]))

    def viol(self, mech, **detail):
        if len(self.out["violations"]) < 40:
            self.out["violations"].append({"mechanism": mech, "detail": detail})

    def guard(self, mech, fn, **detail):
        """Run fn; a repository exception on a legal case is a violation."""
        try:
            return True, fn()
        except Exception as ex:
            if exc_origin(ex) == "repo":
                self.viol(mech + ":exception", exception=repr(ex), **detail)
                return False, None
            raise


def check_ranges(c, lim, part, parts):
    from amaranth.hdl import Shape
    k = 0
    for a in range(-lim, lim + 1):
        for b in range(-lim, lim + 1):
            for s in (1, 2, 3, 5, 7, -1, -2, -3, -5, -7):
                k += 1
                if k % parts != part:
                    continue
                r = range(a, b, s)
                c.case("range", [a, b, s], nontrivial=bool(r))
                ok, sh = c.guard("range-cast", lambda: Shape.cast(r), range=repr(r))
                if ok:
                    exp = instrument.range_shape(r)
                    if (sh.width, sh.signed) != exp:
                        c.viol("range-shape", range=repr(r), cast=repr(sh), expected=list(exp))
    c.out["exhaustive"].append(f"range(a,b,s) a,b in [-{lim},{lim}] s in +-{{1,2,3,5,7}}")


def check_huge_ranges(c, rng, n):
    from amaranth.hdl import Shape
    for _ in range(n):
        k = rng.randrange(1, 200)
        a = rng.choice([0, 1, -1, -(1 << k), -(1 << k) + 1, -(1 << k) - 1, (1 << k) - 1, 1 << k])
        b = rng.choice([(1 << k) - 1, 1 << k, (1 << k) + 1, (1 << k) + 2, -(1 << k), 0, 1])
        s = rng.choice([1, 1, 2, 3, 1 << (k // 2), -1, -3])
        r = range(a, b, s)
        c.case("huge-range", [a, b, s], nontrivial=bool(r))
        ok, sh = c.guard("range-cast", lambda: Shape.cast(r), range=repr(r))
        if ok:
            exp = instrument.range_shape(r)
            if (sh.width, sh.signed) != exp:
                c.viol("range-shape", range=repr(r), cast=repr(sh), expected=list(exp))


def check_consts(c, vlim, maxw, part, parts):
    from amaranth.hdl import Const, Shape
    k = 0
    for v in range(-vlim, vlim + 1):
        k += 1
        if k % parts != part:
            continue
        # default shape: minimal
        c.case("const-default", [v])
        ok, k0 = c.guard("const", lambda: Const(v), value=v)
        if ok:
            sh = k0.shape()
            exp = X.const_shape(v)
            if k0.value != v or (sh.width, sh.signed) != exp:
                c.viol("const-default-shape", value=v, shape=repr(sh), stored=k0.value, expected=list(exp))
        for w in range(0, maxw + 1):
            for s in (False, True):
                if s and w == 0:
                    continue  # signed(0) is not a legal shape
                c.case("const-shaped", [v, w, s], nontrivial=w > 0)
                ok, kk = c.guard("const", lambda: Const(v, Shape(w, s)), value=v, shape=[w, s])
                if ok and kk.value != norm(v, w, s):
                    c.viol("const-normalisation", value=v, shape=[w, s], stored=kk.value,
                           expected=norm(v, w, s))
            # integer shape: width w, signed iff v < 0
            if v < 0 and w == 0:
                continue
            c.case("const-int-shape", [v, w], nontrivial=w > 0)
            ok, kk = c.guard("const", lambda: Const(v, w), value=v, shape=w)
            if ok:
                sh = kk.shape()
                if (sh.width, sh.signed) != (w, v < 0) or kk.value != norm(v, w, v < 0):
                    c.viol("const-int-shape", value=v, width=w, shape=repr(sh), stored=kk.value)
    c.out["exhaustive"].append(f"Const(v, shape) v in [-{vlim},{vlim}] widths 0..{maxw} both signednesses")


def check_bitcount(c, lim, part, parts):
    from amaranth.utils import bits_for, ceil_log2
    vals = list(range(-lim, lim + 1))
    for k in range(0, 201):
        vals += [(1 << k) - 1, 1 << k, (1 << k) + 1, -(1 << k) - 1, -(1 << k), -(1 << k) + 1]
    for i, n in enumerate(vals):
        if i % parts != part:
            continue
        c.case("bits_for", [n])
        ok, b = c.guard("bits_for", lambda: bits_for(n), n=n)
        if ok:
            # minimal width of a shape (signed iff n<0) containing n; bits_for(0)==1 by the docs
            exp = X.const_shape(n)[0]
            if b != exp:
                c.viol("bits_for", n=n, got=b, expected=exp)
        ok, b = c.guard("bits_for", lambda: bits_for(n, True), n=n)
        if ok:
            w = 1
            while not fits(n, w, True):
                w += 1
            if b != w:
                c.viol("bits_for-signed", n=n, got=b, expected=w)
        if n >= 0:
            c.case("ceil_log2", [n])
            ok, b = c.guard("ceil_log2", lambda: ceil_log2(n), n=n)
            if ok:
                e = 0
                while (1 << e) < n:
                    e += 1
                if b != e:
                    c.viol("ceil_log2", n=n, got=b, expected=e)
    c.out["exhaustive"].append(f"bits_for/ceil_log2 on [-{lim},{lim}] and 2^k+-1, k<=200")


def check_enums(c, rng, n):
    from amaranth.hdl import Shape, Const
    from amaranth.lib import enum as aenum
    corner = [0, 1, 2, 3, 4, 7, 8, 15, 16, 255, 256, -1, -2, -3, -4, -5, -8, -9, -128, -129, 1 << 20, -(1 << 20)]
    for i in range(n):
        nm = rng.randrange(0, 7)
        vals = []
        while len(vals) < nm:
            v = rng.choice(corner) if rng.random() < 0.8 else rng.randrange(-1000, 1000)
            if v not in vals:
                vals.append(v)
        base = rng.choice(["Enum", "IntEnum", "Flag", "aEnum", "aIntEnum"])
        if base == "Flag":
            vals = [abs(v) for v in vals]
            vals = list(dict.fromkeys(vals))
        members = {f"M{k}": v for k, v in enumerate(vals)}
        bases = {"Enum": enum.Enum, "IntEnum": enum.IntEnum, "Flag": enum.Flag,
                 "aEnum": aenum.Enum, "aIntEnum": aenum.IntEnum}
        try:
            cls = bases[base](f"E{i}", members)
        except Exception:
            continue
        mvals = [m.value for m in cls]
        c.case("enum", [base, mvals], nontrivial=len(mvals) > 0)
        ok, sh = c.guard("enum-cast", lambda: Shape.cast(cls), base=base, members=mvals)
        if not ok:
            continue
        exp = unify([X.const_shape(v) for v in mvals])
        if (sh.width, sh.signed) != exp:
            c.viol("enum-shape", base=base, members=mvals, cast=repr(sh), expected=list(exp))
        for m in cls:
            ok, k = c.guard("enum-const", lambda: Const(m), base=base, member=m.value)
            if ok and (k.value != m.value or (k.shape().width, k.shape().signed) != exp):
                c.viol("enum-const", base=base, members=mvals, member=m.value, const=repr(k))
        if len(c.out["samples"]) < 2 and mvals:
            c.out["samples"].append({"kind": "enum", "base": base, "members": mvals, "shape": repr(sh)})


def gen_const_tree(rng, d):
    if d <= 0 or rng.random() < 0.25:
        w = rng.choice([0, 1, 2, 3, 4, 8])
        return ["constsh", rng.randrange(-(1 << w), (1 << w) + 1), w, w > 0 and rng.random() < 0.4]
    k = rng.random()
    if k < 0.5:
        return ["cat", [gen_const_tree(rng, d - 1) for _ in range(rng.randrange(0, 4))]]
    a = gen_const_tree(rng, d - 1)
    w = X.ref_shape(a, [])[0]
    if k < 0.75 and w > 0:
        return ["index", a, rng.randrange(-w, w)]
    st = rng.choice([None, 0, 1, w // 2, -1, w, w + 1])
    sp = rng.choice([None, 0, 1, w // 2, -1, w, w + 1])
    return ["slice", a, st, sp, None]


def check_const_cast(c, rng, n):
    from amaranth.hdl import Const
    for _ in range(n):
        try:
            ir = gen_const_tree(rng, rng.randrange(1, 5))
            sh = X.ref_shape(ir, [])
        except X.IllFormed:
            continue
        exact = X.ref_eval(ir, [], [])
        c.case("const-cast", X.fingerprint(ir, []), nontrivial=ir[0] != "constsh")
        ok, k = c.guard("const-cast", lambda: Const.cast(X.build(ir, [])), expr=ir)
        if ok and (k.value != exact or k.shape().width != sh[0]):
            c.viol("const-cast-value", expr=ir, got=k.value, shape=repr(k.shape()), expected=exact)
        if len(c.out["samples"]) < 4 and ir[0] != "constsh":
            c.out["samples"].append({"kind": "const-cast", "expr": ir, "value": exact})


def check_inits(c, part, parts, lim):
    from amaranth.hdl import Signal, Shape, MemoryData
    from amaranth.hdl._ast import SyntaxError as ASyntaxError
    k = 0
    for w in range(0, 6):
        for s in (False, True):
            if s and w == 0:
                continue
            for v in range(-40, 41):
                k += 1
                if k % parts != part:
                    continue
                c.case("signal-init", [w, s, v], nontrivial=w > 0)
                ok, sig = c.guard("signal-init", lambda: Signal(Shape(w, s), init=v), shape=[w, s], init=v)
                if ok and sig.init != norm(v, w, s):
                    c.viol("signal-init-wrap", shape=[w, s], init=v, stored=sig.init, expected=norm(v, w, s))
                c.case("memory-init", [w, s, v], nontrivial=w > 0)
                ok, md = c.guard("memory-init", lambda: MemoryData(shape=Shape(w, s), depth=3, init=[v, 0]),
                                 shape=[w, s], init=v)
                if ok:
                    rows = list(md.init)
                    if rows[0] != norm(v, w, s) or rows[1:] != [0, 0]:
                        c.viol("memory-init-wrap", shape=[w, s], init=v, rows=rows)
    for a in range(-lim, lim + 1):
        for b in range(-lim, lim + 1):
            for st in (1, 2, -1):
                k += 1
                if k % parts != part:
                    continue
                r = range(a, b, st)
                for v in range(-lim - 2, lim + 3):
                    c.case("range-signal-init", [a, b, st, v], nontrivial=bool(r))
                    try:
                        sig = Signal(r, init=v)
                        accepted = True
                    except ASyntaxError:
                        accepted = False
                    except Exception as ex:
                        if exc_origin(ex) == "repo":
                            c.viol("range-signal-init:exception", range=repr(r), init=v, exception=repr(ex))
                            continue
                        raise
                    if accepted and v not in r:
                        # property: "a range-shaped signal rejects an initial value outside its range"
                        c.viol("range-signal-init-accepted-out-of-range", range=repr(r), init=v)
                    if accepted and v in r and sig.init != v:
                        c.viol("range-signal-init-value", range=repr(r), init=v, stored=sig.init)
                    if not accepted and v in r:
                        c.viol("range-signal-init-rejected-in-range", range=repr(r), init=v)
    c.out["exhaustive"].append(f"Signal(range(a,b,s), init=v) |bounds|<={lim}; Signal/MemoryData init widths 0..5 v in [-40,40]")


def check_init_histories(c, rng, n):
    """Memory initial rows stored in every way the API offers (constructor, `.init = rows`, `.init[i] = v`,
    `.init[a:b:s] = rows`, through hdl.MemoryData and lib.memory.Memory) against a list model that wraps each row
    like a constant of the row shape; the rows are compared after every step (public view and the raw integers the
    back ends and the simulator read), and for some histories read back in simulation through `ctx.get(row)` and
    a read port."""
    from amaranth.hdl import Shape, MemoryData, Const, Module, Signal
    from amaranth.lib import memory as libmem, enum as aenum
    from amaranth.sim import Simulator

    class EU(aenum.Enum, shape=3):
        A = 0
        B = 5
        C = 7

    class ES(aenum.Enum, shape=Shape(3, True)):
        N = -4
        Z = 0
        P = 3
    for _ in range(n):
        depth = rng.randrange(1, 7)
        kind = rng.random()
        if kind < 0.8:
            w = rng.randrange(0, 9)
            sg = rng.random() < 0.5 and w > 0
            shape = Shape(w, sg)
            members = None
            rnd = lambda: rng.choice([rng.randrange(-300, 300), rng.randrange(-(1 << w) - 2, (1 << w) + 3), 0, -1])
            wrap = lambda v: norm(v, w, sg)
            raw_of = lambda v: norm(v, w, sg) & ((1 << w) - 1)
            view = wrap
        else:
            E = rng.choice([EU, ES])
            shape = E
            members = list(E)
            w, sg = 3, E is ES
            rnd = lambda: rng.choice(members)
            raw_of = lambda v: v.value & 7
            view = lambda v: v
        use_lib = rng.random() < 0.4
        first = [rnd() for _ in range(rng.randrange(0, depth + 1))]
        default = 0 if members is None else None
        ops = [["ctor", first]]
        for _ in range(rng.randrange(0, 5)):
            k = rng.random()
            if k < 0.35:
                ops.append(["setitem", rng.randrange(-depth, depth), rnd()])
            elif k < 0.85:
                sl = slice(rng.choice([None, rng.randrange(-depth, depth + 1)]), rng.choice([None, rng.randrange(-depth, depth + 1)]),
                           rng.choice([None, 1, 2, -1]))
                cnt = len(range(*sl.indices(depth)))
                ops.append(["setslice", [sl.start, sl.stop, sl.step], [rnd() for _ in range(cnt)]])
            else:
                ops.append(["assign", [rnd() for _ in range(rng.randrange(0, depth + 1))]])
        desc = {"shape": repr(shape), "depth": depth, "lib_memory": use_lib,
                "ops": [[o[0]] + [repr(x) for x in o[1:]] for o in ops]}
        c.case("memory-init-history", desc, nontrivial=w > 0 and len(ops) > 1)
        try:
            obj = (libmem.Memory if use_lib else MemoryData)(shape=shape, depth=depth, init=first)
            md = obj.data if use_lib else obj
            none_raw = Const.cast(Const(None, shape)).value & ((1 << w) - 1) if members is not None else 0
            model = [view(v) for v in first] + [default] * (depth - len(first))
            raws = [raw_of(v) for v in first] + [none_raw] * (depth - len(first))
            for step, op in enumerate(ops):
                if op[0] == "setitem":
                    obj.init[op[1]] = op[2]
                    model[op[1]] = view(op[2])
                    raws[op[1]] = raw_of(op[2])
                elif op[0] == "setslice":
                    sl = slice(*op[1])
                    obj.init[sl] = op[2]
                    for i, v in zip(range(*sl.indices(depth)), op[2]):
                        model[i] = view(v)
                        raws[i] = raw_of(v)
                elif op[0] == "assign":
                    obj.init = op[1]
                    model = [view(v) for v in op[1]] + [default] * (depth - len(op[1]))
                    raws = [raw_of(v) for v in op[1]] + [none_raw] * (depth - len(op[1]))
                c.out["hist"]["memory-init-op:" + op[0]] = c.out["hist"].get("memory-init-op:" + op[0], 0) + 1
                got = list(obj.init)
                got_raw = [r & ((1 << w) - 1) for r in md.init._raw]
                unmasked = [r for r in md.init._raw if not (-(1 << w) < r < (1 << w))] if members is None else []
                in_range = all(fits(r, w, sg) for r in md.init._raw) if members is None else True
                if got != model or got_raw != raws or not in_range:
                    c.viol("memory-init-rows-differ-from-wrapped-model:after-" + op[0], case=desc, step=step, rows=repr(got),
                           raw=list(md.init._raw), expected=repr(model), expected_raw=raws)
                    raise StopIteration
            if rng.random() < 0.25 and w > 0:
                # read the rows back in simulation: row objects and a combinational read port
                mem = obj if use_lib else libmem.Memory(md)
                m = Module()
                m.submodules.mem = mem
                rp = mem.read_port(domain="comb")
                seen = []

                async def tb(ctx):
                    for i in range(depth):
                        ctx.set(rp.addr, i)
                        v1, v2 = ctx.get(md[i]), ctx.get(rp.data)
                        seen.append([v1 if members is None else v1, v2 if members is None else v2])
                sim = Simulator(m)
                sim.add_testbench(tb)
                sim.run()
                exp = [[model[i], model[i]] if members is None else None for i in range(depth)]
                if members is None:
                    if seen != exp:
                        c.viol("memory-init-rows-read-in-simulation-differ", case=desc, seen=seen, expected=exp)
                else:
                    rawseen = [[Const.cast(Const(a, shape)).value & 7, Const.cast(Const(b, shape)).value & 7] for a, b in seen]
                    if rawseen != [[r, r] for r in raws]:
                        c.viol("memory-init-rows-read-in-simulation-differ", case=desc, seen=repr(seen), expected_raw=raws)
                c.out["hist"]["memory-init-history-simulated"] = c.out["hist"].get("memory-init-history-simulated", 0) + 1
        except StopIteration:
            pass
        except Exception as ex:
            if exc_origin(ex) != "repo":
                raise
            c.viol("memory-init-history:exception", case=desc, exception=repr(ex)[:300])


def check_other_forms(c, rng, n):
    """The same laws through other accepted argument forms: memory rows handed over as bytes / bytearray / tuple /
    range / generator, and constants built from enumeration members with an explicit shape given as an int width
    (including 0), a range (including empty ones) or a Shape."""
    import enum as pyenum
    from amaranth.hdl import Shape, Const, MemoryData
    from amaranth.lib import memory as libmem, enum as aenum

    class PE(pyenum.Enum):
        A = 1
        B = 5

    class IE(pyenum.IntEnum):
        N = -3
        P = 2

    class AE(aenum.Enum, shape=4):
        X = 9
        Y = 3
    members = list(PE) + list(IE) + list(AE)
    shapes = [0, 1, 3, 9, Shape(0, False), Shape(2, True), Shape(4, False), range(0), range(4, 4), range(-2, 5), range(16)]
    for m in members:
        for sh in shapes:
            if isinstance(sh, int):
                if sh == 0 and m.value < 0:
                    continue        # (an int width with a negative value means signed(width): signed(0) does not exist)
                es = Shape(sh, m.value < 0)
            else:
                es = Shape.cast(sh)
            c.case("const-from-enum-member", [type(m).__name__, m.name, repr(sh)])
            ok, k = c.guard("const-from-enum-member", lambda: Const(m, sh), member=repr(m), shape=repr(sh))
            if not ok:
                continue
            ev = norm(m.value, es.width, es.signed)
            if k.shape() != es or k.value != ev:
                c.viol("const-from-enum-member-with-explicit-shape", member=repr(m), shape=repr(sh), got=[repr(k.shape()), k.value],
                       expected=[repr(es), ev])
    # a user-written shape-castable whose const() uses the int-width shorthand (signed for negative initialisers,
    # unsigned otherwise): Const(v, shape) must not hand out a constant that is not of the requested shape
    from amaranth.hdl import ShapeCastable, Value

    class Sloppy(ShapeCastable):
        def __init__(self, w, sg):
            self.w, self.sg = w, sg

        def as_shape(self):
            return Shape(self.w, self.sg)

        def __call__(self, value):
            return value

        def const(self, init):
            return Const(init or 0, self.w)

        def from_bits(self, bits):
            return bits

        def format(self, value, spec):
            from amaranth.hdl import Format
            return Format("{}", Value.cast(value))
    for w in (1, 3, 8):
        for sg in (False, True):
            for v in (-300, -5, -1, 0, 1, 5, 200):
                c.case("const-of-user-shape-castable", [w, sg, v])
                try:
                    k = Const(v, Sloppy(w, sg))
                except (ValueError, TypeError):
                    continue          # refusing an inconsistent const() is fine
                except Exception as ex:
                    if exc_origin(ex) != "repo":
                        raise
                    c.viol("const-of-user-shape-castable:exception", shape=[w, sg], value=v, exception=repr(ex)[:200])
                    continue
                kv = Value.cast(k)
                if kv.shape() != Shape(w, sg) or not fits(kv.value, w, sg):
                    c.viol("constant-not-of-the-requested-shape", shape=[w, sg], value=v, got=[repr(kv.shape()), kv.value])
    for _ in range(n):
        w = rng.choice([1, 4, 7, 8, 8, 9, 16])
        sg = rng.random() < 0.5
        depth = rng.randrange(1, 7)
        vals = [rng.choice([0, 1, 127, 128, 200, 255, rng.randrange(256)]) for _ in range(rng.randrange(0, depth + 1))]
        form = rng.choice(["bytes", "bytearray", "tuple", "generator", "list", "range"])
        if form == "range":
            vals = list(range(rng.randrange(0, 200), 256))[:rng.randrange(0, depth + 1)]
        mk = {"bytes": lambda: bytes(vals), "bytearray": lambda: bytearray(vals), "tuple": lambda: tuple(vals),
              "generator": lambda: (v for v in vals), "list": lambda: list(vals),
              "range": lambda: range(vals[0], vals[0] + len(vals)) if vals else range(0)}[form]
        how = rng.choice(["MemoryData", "Memory", "init-setter", "slice"])
        c.case("memory-init-form", [form, how, w, sg, vals], nontrivial=bool(vals))
        c.out["hist"]["memory-init-form:" + form] = c.out["hist"].get("memory-init-form:" + form, 0) + 1
        import warnings
        try:
            with warnings.catch_warnings():
                warnings.simplefilter("ignore")
                if how == "MemoryData":
                    obj = MemoryData(shape=Shape(w, sg), depth=depth, init=mk())
                elif how == "Memory":
                    obj = libmem.Memory(shape=Shape(w, sg), depth=depth, init=mk())
                elif how == "init-setter":
                    obj = MemoryData(shape=Shape(w, sg), depth=depth, init=[])
                    obj.init = mk()
                else:
                    obj = MemoryData(shape=Shape(w, sg), depth=depth, init=[])
                    if form == "generator":
                        obj.init[0:len(vals)] = list(mk())
                    else:
                        obj.init[0:len(vals)] = mk()
            rows = list(obj.init)
        except Exception as ex:
            if exc_origin(ex) != "repo":
                raise
            c.viol("memory-init-form:exception", form=form, how=how, shape=[w, sg], values=vals, exception=repr(ex)[:200])
            continue
        exp = [norm(v, w, sg) for v in vals] + [0] * (depth - len(vals))
        if rows != exp:
            c.viol("memory-init-rows-not-wrapped:" + form, how=how, shape=[w, sg], values=vals, rows=rows, expected=exp)


def run_shard(spec):
    instrument.install_construction_contracts()
    c = Ctx()
    tier = spec["tier"]
    part, parts = spec["part"], spec["parts"]
    rng = derive_rng("c10", spec["seed"], part)
    check_ranges(c, 34 if tier == "quick" else 70, part, parts)
    check_huge_ranges(c, rng, 300 if tier == "quick" else 40000)
    check_consts(c, 300, 8 if tier == "quick" else 12, part, parts)
    check_bitcount(c, 5000 if tier == "quick" else 50000, part, parts)
    check_enums(c, rng, 150 if tier == "quick" else 20000)
    check_const_cast(c, rng, 400 if tier == "quick" else 60000)
    check_inits(c, part, parts, 6 if tier == "quick" else 10)
    check_init_histories(c, rng, 150 if tier == "quick" else 6000)
    check_other_forms(c, rng, 100 if tier == "quick" else 4000)
    out = c.out
    out["violations"].extend(instrument.VIOLATIONS)
    instrument.VIOLATIONS.clear()
    if part == 0:
        out["samples"].append({"kind": "range", "range": "range(-3, 9, 2)", "expected_shape": list(instrument.range_shape(range(-3, 9, 2)))})
    out["monitors"] = dict(instrument.COUNTERS)
    out["fps"] = sorted(out["fps"])
    return out
