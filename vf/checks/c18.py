"""C18 I/O buffers apply direction, inversion and registering exactly per bit."""
import itertools

from .. import instrument
from ..common import derive_rng, fp, exc_origin

PROPERTY = "C18"
LEVEL = "exploration"
RULE = ("Buffer on SimulationPort: widths 0..5 x every inversion mask x port direction {i,o,io} x buffer "
        "direction {i,o,io} (illegal pairs must be rejected), all (o, oe, port.i) values for width <= 3 "
        "and samples above; FFBuffer: the same per-bit model behind exactly one register per direction "
        "in the named domains, all 9 (i_domain, o_domain) naming combinations, random interleavings of "
        "input changes and edges of {sync, inp, outp} incl. coincident edges; port algebra: random "
        "expressions of <= 6 operations ([i] incl. negative, [a:b:c], +, ~) over SimulationPort / "
        "SingleEndedPort / DifferentialPort compared with a per-bit (pad bit, inverted) list model "
        "(length, inversion tuple, direction lattice, illegal + rejected), and for simulation ports a "
        "Buffer on the composite is simulated bit by bit against the base ports; real ports: Buffer/"
        "FFBuffer on IOPort-backed single-ended and differential ports converted to RTLIL and checked: "
        "every pad bit used by exactly one buffer cell, inversion on the fabric side, evaluated "
        "pad value. distinct/non-trivial = distinct (configuration, mask) with width >= 1.")
ASSUMPTIONS = ["per-bit model (this file): pad.o = o ^ inv, pad.oe = oe, i = (oe ? pad.o : pad.i) ^ inv for bidirectional, pad.i ^ inv otherwise",
               "inputs and clock edges never change in the same event"]
REQUIRED_MONITORS = ["slot_commit"]
MIN_NONTRIVIAL = {"quick": 300, "thorough": 2000}
NSHARDS = 16


class V(Exception):
    def __init__(self, mech, **detail):
        self.mech, self.detail = mech, detail


def mask_of(inv):
    return sum(1 << i for i, b in enumerate(inv) if b)


def legal(pdir, bdir):
    return pdir == "io" or pdir == bdir


# ---- A. Buffer on SimulationPort ---------------------------------------------------------------
def check_buffer(width, inv, pdir, bdir, rng, out, exhaustive):
    from amaranth.hdl import Module, Cat
    from amaranth.lib import io
    from amaranth.sim import Simulator
    cfg = {"kind": "Buffer", "width": width, "invert": list(inv), "port_dir": pdir, "buffer_dir": bdir}
    port = io.SimulationPort(pdir, width, invert=tuple(inv), name="pad")
    try:
        buf = io.Buffer(bdir, port)
        ok = True
    except ValueError:
        ok = False
    out["evaluations"] += 1
    if ok != legal(pdir, bdir):
        raise V("direction-combination-" + ("accepted" if ok else "rejected"), config=cfg)
    if not ok:
        out["hist"]["illegal-combination-rejected"] = out["hist"].get("illegal-combination-rejected", 0) + 1
        return
    m = Module()
    m.submodules.buf = buf
    sim = Simulator(m)
    M = mask_of(inv)
    full = (1 << width) - 1
    bad = []
    if exhaustive:
        vals = list(itertools.product(range(1 << width), range(1 << width), (0, 1)))
    else:
        vals = [(rng.getrandbits(width), rng.getrandbits(width), rng.getrandbits(1)) for _ in range(24)]

    async def tb(ctx):
        for (o, pi, oe) in vals:
            if bdir in ("o", "io"):
                ctx.set(Cat(buf.o, buf.oe), o | (oe << width))
            if pdir in ("i", "io"):
                ctx.set(port.i, pi)
            out["evaluations"] += 1
            if bdir in ("o", "io"):
                go, goe = ctx.get(port.o), ctx.get(port.oe)
                if go != o ^ M:
                    bad.append(("port-o", dict(o=o, got=go, expected=o ^ M)))
                    return
                if goe != (full if oe else 0):
                    bad.append(("port-oe", dict(oe=oe, got=goe, expected=full if oe else 0)))
                    return
            if bdir in ("i", "io"):
                gi = ctx.get(buf.i)
                if bdir == "io":
                    exp = o if oe else (pi ^ M)
                else:
                    exp = pi ^ M
                if gi != exp:
                    bad.append(("buffer-i", dict(o=o, oe=oe, port_i=pi, got=gi, expected=exp)))
                    return
            if bdir == "i" and pdir == "io":
                # an input buffer never drives the pad
                if ctx.get(port.oe) != 0:
                    bad.append(("input-buffer-drives-pad", dict(oe=ctx.get(port.oe))))
                    return
    sim.add_testbench(tb)
    sim.run()
    if bad:
        raise V("buffer-" + bad[0][0], config=cfg, **bad[0][1])
    if width:
        out["fps"].add(fp(cfg))


# ---- B. FFBuffer ---------------------------------------------------------------------------------
def check_ffbuffer(width, inv, pdir, bdir, i_domain, o_domain, rng, out, nevents=60):
    from amaranth.hdl import Module, Cat, ClockDomain, Signal
    from amaranth.lib import io
    from amaranth.sim import Simulator
    cfg = {"kind": "FFBuffer", "width": width, "invert": list(inv), "port_dir": pdir, "buffer_dir": bdir,
           "i_domain": i_domain, "o_domain": o_domain}
    port = io.SimulationPort(pdir, width, invert=tuple(inv), name="pad")
    kw = {}
    if i_domain is not None:
        kw["i_domain"] = i_domain
    if o_domain is not None:
        kw["o_domain"] = o_domain
    exp_ok = legal(pdir, bdir) and not (bdir == "o" and i_domain is not None) and not (bdir == "i" and o_domain is not None)
    try:
        buf = io.FFBuffer(bdir, port, **kw)
        ok = True
    except ValueError:
        ok = False
    out["evaluations"] += 1
    if ok != exp_ok:
        raise V("ffbuffer-construction-" + ("accepted" if ok else "rejected"), config=cfg)
    if not ok:
        return
    idom = (i_domain or "sync") if bdir != "o" else None
    odom = (o_domain or "sync") if bdir != "i" else None
    m = Module()
    cds = {n: ClockDomain(n) for n in ("sync", "inp", "outp")}
    for n, cd in cds.items():
        setattr(m.domains, n, cd)
        k = Signal(name=f"keep_{n}")
        m.d[n] += k.eq(~k)
    m.submodules.buf = buf
    sim = Simulator(m)
    M = mask_of(inv)
    full = (1 << width) - 1
    names = ["sync", "inp", "outp"]
    clkcat = Cat(*[cds[n].clk for n in names])
    bad = []
    trace = []

    async def tb(ctx):
        o = oe = pi = 0
        o_ff = oe_ff = i_ff = 0
        # (the oe member of an output buffer defaults to 1: start from explicit values)
        if bdir in ("o", "io"):
            ctx.set(Cat(buf.o, buf.oe), 0)
        if pdir in ("i", "io"):
            ctx.set(port.i, 0)
        for n in range(nevents):
            if rng.random() < 0.45:
                o, oe, pi = rng.getrandbits(width), rng.getrandbits(1), rng.getrandbits(width)
                if bdir in ("o", "io"):
                    ctx.set(Cat(buf.o, buf.oe), o | (oe << width))
                if pdir in ("i", "io"):
                    ctx.set(port.i, pi)
                trace.append(["in", o, oe, pi])
            else:
                mask = rng.choice([1, 2, 4, 1, 2, 4, 3, 5, 6, 7])
                doms = {names[k] for k in range(3) if mask >> k & 1}
                # model: all registers sample pre-edge values
                pad_in_pre = ((o_ff ^ M) if oe_ff else pi) if bdir == "io" else pi
                n_i_ff, n_o_ff, n_oe_ff = i_ff, o_ff, oe_ff
                if idom in doms:
                    n_i_ff = pad_in_pre ^ M
                if odom in doms:
                    n_o_ff, n_oe_ff = o, oe
                i_ff, o_ff, oe_ff = n_i_ff, n_o_ff, n_oe_ff
                ctx.set(clkcat, mask)
                # right after the rising edges the registers already hold their new values
                if bdir in ("o", "io") and (ctx.get(port.o) != o_ff ^ M or ctx.get(port.oe) != (full if oe_ff else 0)):
                    bad.append(("ffbuffer-output-stage", dict(when="right after the rising edge", port_o=ctx.get(port.o), port_oe=ctx.get(port.oe),
                                                              expected_o=o_ff ^ M, expected_oe=full if oe_ff else 0)))
                    return
                if bdir in ("i", "io") and ctx.get(buf.i) != i_ff:
                    bad.append(("ffbuffer-input-stage", dict(when="right after the rising edge", i=ctx.get(buf.i), expected=i_ff)))
                    return
                ctx.set(clkcat, 0)
                trace.append(["edge", sorted(doms)])
            out["evaluations"] += 1
            if bdir in ("o", "io"):
                go, goe = ctx.get(port.o), ctx.get(port.oe)
                if go != o_ff ^ M or goe != (full if oe_ff else 0):
                    bad.append(("ffbuffer-output-stage", dict(port_o=go, port_oe=goe, expected_o=o_ff ^ M, expected_oe=full if oe_ff else 0)))
                    return
            if bdir in ("i", "io"):
                gi = ctx.get(buf.i)
                if gi != i_ff:
                    bad.append(("ffbuffer-input-stage", dict(i=gi, expected=i_ff)))
                    return
    sim.add_testbench(tb)
    sim.run()
    if bad:
        raise V(bad[0][0], config=cfg, events=trace[-12:], **bad[0][1])
    if width:
        out["fps"].add(fp(cfg))


# ---- C. port algebra -------------------------------------------------------------------------------
def gen_port_expr(rng, kind, nbase):
    """Expression IR: ['base', k] | ['inv', e] | ['idx', e, i] | ['slice', e, a, b, c] | ['add', e1, e2]"""
    def g(depth):
        if depth == 0 or rng.random() < 0.3:
            return ["base", rng.randrange(nbase)]
        k = rng.random()
        if k < 0.25:
            return ["inv", g(depth - 1)]
        if k < 0.45:
            return ["idx", g(depth - 1), rng.randrange(-4, 4)]
        if k < 0.7:
            return ["slice", g(depth - 1), rng.choice([None, 0, 1, -1, -2, 2]), rng.choice([None, 1, 2, -1, 3, 5]), rng.choice([None, None, 2, -1])]
        return ["add", g(depth - 1), g(depth - 1)]
    return g(rng.randrange(1, 5))


class Contested(Exception):
    pass


def base_leaves(e):
    if e[0] == "base":
        return [e[1]]
    out = []
    for x in e[1:]:
        if isinstance(x, list):
            out += base_leaves(x)
    return out


def meet(a, b):
    if a == b:
        return a
    if a == "io":
        return b
    if b == "io":
        return a
    raise ValueError


def model_expr(e, bases):
    """-> (bits [(base, bit, inverted)], direction) or raises IndexError / ValueError."""
    if e[0] == "base":
        w, inv, d = bases[e[1]]
        return [(e[1], i, inv[i]) for i in range(w)], d
    if e[0] == "inv":
        b, d = model_expr(e[1], bases)
        return [(k, i, not v) for (k, i, v) in b], d
    if e[0] == "idx":
        b, d = model_expr(e[1], bases)
        return [b[e[2]]], d     # IndexError if out of range, like tuples
    if e[0] == "slice":
        b, d = model_expr(e[1], bases)
        st, sp, step = slice(e[2], e[3], e[4]).indices(len(b))
        if step == 1 and st > sp:
            # a reversed plain slice is empty for Python sequences but an IndexError for Amaranth
            # values; the property does not pin this down: not generated
            raise Contested()
        return b[slice(e[2], e[3], e[4])], d
    b1, d1 = model_expr(e[1], bases)
    b2, d2 = model_expr(e[2], bases)
    return b1 + b2, meet(d1, d2)


def build_expr(e, ports):
    if e[0] == "base":
        return ports[e[1]]
    if e[0] == "inv":
        return ~build_expr(e[1], ports)
    if e[0] == "idx":
        return build_expr(e[1], ports)[e[2]]
    if e[0] == "slice":
        return build_expr(e[1], ports)[slice(e[2], e[3], e[4])]
    return build_expr(e[1], ports) + build_expr(e[2], ports)


def check_algebra(rng, out):
    from amaranth.hdl import Module, IOPort, Cat
    from amaranth.lib import io
    from amaranth.sim import Simulator
    kind = rng.choice(["sim", "sim", "single", "diff"])
    nbase = rng.randrange(1, 4)
    bases = []
    for k in range(nbase):
        w = rng.randrange(0, 5)
        inv = tuple(rng.random() < 0.4 for _ in range(w))
        d = rng.choice(["i", "o", "io", "io"])
        bases.append((w, inv, d))
    e = gen_port_expr(rng, kind, nbase)
    cfg = {"kind": "algebra:" + kind, "bases": [[w, list(inv), d] for (w, inv, d) in bases], "expr": e}
    if kind == "sim":
        ports = [io.SimulationPort(d, w, invert=inv, name=f"b{k}") for k, (w, inv, d) in enumerate(bases)]
    elif kind == "single":
        ports = [io.SingleEndedPort(IOPort(w, name=f"b{k}"), invert=inv, direction=d) for k, (w, inv, d) in enumerate(bases)]
    else:
        ports = [io.DifferentialPort(IOPort(w, name=f"p{k}"), IOPort(w, name=f"n{k}"), invert=inv, direction=d) for k, (w, inv, d) in enumerate(bases)]
    try:
        exp = model_expr(e, bases)
    except Contested:
        return
    except (IndexError, ValueError) as ex:
        exp = type(ex)
    out["evaluations"] += 1
    try:
        got = build_expr(e, ports)
    except (IndexError, ValueError) as ex:
        got = type(ex)
    except Exception as ex:
        if exc_origin(ex) != "repo":
            raise
        raise V("port-algebra-exception", config=cfg, exception=repr(ex)[:200])
    out["hist"]["algebra:" + kind] = out["hist"].get("algebra:" + kind, 0) + 1
    if isinstance(exp, type) or isinstance(got, type):
        if not (isinstance(exp, type) and isinstance(got, type)):
            raise V("port-algebra-rejection-mismatch", config=cfg, model=str(exp)[:80], got=str(got)[:80])
        out["hist"]["algebra-rejected"] = out["hist"].get("algebra-rejected", 0) + 1
        return
    bits, d = exp
    if len(got) != len(bits):
        raise V("port-algebra-length", config=cfg, got=len(got), expected=len(bits))
    if tuple(got.invert) != tuple(v for (_, _, v) in bits):
        raise V("port-algebra-inversion", config=cfg, got=list(got.invert), expected=[v for (_, _, v) in bits])
    if got.direction.value != d:
        raise V("port-algebra-direction", config=cfg, got=got.direction.value, expected=d)
    out["fps"].add(fp(cfg))
    if kind != "sim" or not bits:
        return
    # simulate a Buffer on the composite port: each composite bit must act on its base pad bit
    bdir = d if d != "io" else rng.choice(["i", "o", "io"])
    # a pad bit used twice in the composite would be driven twice: only check duplicate-free outputs
    leaves = base_leaves(e)
    if bdir != "i" and len(set(leaves)) != len(leaves):
        # a base port listed twice inside a concatenation that is then partially driven is the
        # simulator's known duplicate-Cat target defect (C05 finding F14), not an I/O buffer matter
        return
    buf = io.Buffer(bdir, got)
    m = Module()
    m.submodules.buf = buf
    try:
        sim = Simulator(m)
    except Exception as ex:
        if exc_origin(ex) != "repo":
            raise
        raise V("composite-port-buffer-exception", config=cfg, buffer_dir=bdir, exception=repr(ex)[:200])
    n = len(bits)
    bad = []

    async def tb(ctx):
        for rep in range(8):
            o, oe = rng.getrandbits(n), rng.getrandbits(1)
            pis = [rng.getrandbits(max(w, 1)) & ((1 << w) - 1) for (w, inv, dd) in bases]
            if bdir != "i":
                ctx.set(Cat(buf.o, buf.oe), o | (oe << n))
            for k, (w, inv, dd) in enumerate(bases):
                if dd != "o":
                    ctx.set(ports[k].i, pis[k])
            out["evaluations"] += 1
            for j, (k, i, v) in enumerate(bits):
                if bdir != "i":
                    go = (ctx.get(ports[k].o) >> i) & 1
                    goe = (ctx.get(ports[k].oe) >> i) & 1
                    if go != ((o >> j) & 1) ^ int(v) or goe != oe:
                        bad.append(dict(bit=j, pad=[k, i], inverted=v, pad_o=go, pad_oe=goe, o=(o >> j) & 1, oe=oe))
                        return
                if bdir != "o":
                    gi = (ctx.get(buf.i) >> j) & 1
                    pad_i = (pis[k] >> i) & 1
                    exp_i = ((o >> j) & 1) if (bdir == "io" and oe) else pad_i ^ int(v)
                    if gi != exp_i:
                        bad.append(dict(bit=j, pad=[k, i], inverted=v, i=gi, expected=exp_i))
                        return
    sim.add_testbench(tb)
    sim.run()
    if bad:
        raise V("composite-port-buffer-bit", config=cfg, buffer_dir=bdir, **bad[0])


def check_split_buffers(rng, out):
    """Several buffers on different slices of ONE simulation port, fed from a common source: every buffer drives
    exactly its own bits of port.o / port.oe (the slices change in the same instant), and reads its own bits."""
    from amaranth.hdl import Module, Signal, ClockDomain, Cat
    from amaranth.lib import io
    from amaranth.sim import Simulator
    w = rng.randrange(2, 7)
    inv = tuple(rng.random() < 0.5 for _ in range(w))
    M = mask_of(inv)
    ncut = rng.randrange(1, min(3, w - 1) + 1)
    cuts = [0] + sorted(rng.sample(range(1, w), ncut)) + [w]
    ff = rng.random() < 0.4
    bdir = rng.choice(["o", "io", "io"])
    port = io.SimulationPort("io", w, invert=inv, name="pad")
    # the buffers may sit on slices of a re-ordered view of the port (a stepped slice is a concatenation of
    # one-bit pieces, sliced again here)
    order = rng.choice(["plain", "plain", "reversed", "evens-then-odds"])
    if order == "reversed":
        view, perm = port[::-1], list(range(w - 1, -1, -1))
    elif order == "evens-then-odds" and w >= 2:
        view, perm = port[::2] + port[1::2], list(range(0, w, 2)) + list(range(1, w, 2))
    else:
        order, view, perm = "plain", port, list(range(w))
    m = Module()
    cd = ClockDomain("sync", reset_less=True)
    m.domains.sync = cd
    src, en = Signal(w, name="src"), Signal(name="en")
    got_i = Signal(w, name="got_i")
    for k, (lo, hi) in enumerate(zip(cuts, cuts[1:])):
        buf = (io.FFBuffer if ff else io.Buffer)(bdir, view[lo:hi])
        m.submodules[f"buf{k}"] = buf
        m.d.comb += [buf.o.eq(src[lo:hi]), buf.oe.eq(en)]
        if bdir == "io":
            m.d.comb += got_i[lo:hi].eq(buf.i)
    sim = Simulator(m)
    cfg = {"kind": "buffers-on-slices-of-one-port", "width": w, "invert": list(inv), "cuts": cuts, "ffbuffer": ff, "buffer_dir": bdir,
           "port_view": order}

    def to_port(v):          # buffer-side bit k drives / reads port bit perm[k], inverted per port bit
        return sum(((((v >> k) & 1) ^ int(inv[perm[k]])) << perm[k]) for k in range(w))

    def from_port(pv):
        return sum(((((pv >> perm[k]) & 1) ^ int(inv[perm[k]])) << k) for k in range(w))
    out["hist"]["split-buffers:" + ("ff" if ff else "comb") + ":" + bdir + ":" + order] = out["hist"].get("split-buffers:" + ("ff" if ff else "comb") + ":" + bdir + ":" + order, 0) + 1
    full = (1 << w) - 1
    bad = []

    async def tb(ctx):
        prev = None
        for step in range(24):
            sv, ev_, pi = rng.getrandbits(w), rng.getrandbits(1), rng.getrandbits(w)
            ctx.set(port.i, pi)
            ctx.set(Cat(src, en), sv | (ev_ << w))       # every slice's source changes in the same instant
            if ff:
                ctx.set(cd.clk, 1)
                po, poe = ctx.get(port.o), ctx.get(port.oe)
                if (po, poe) != (to_port(sv), full if ev_ else 0):
                    bad.append(dict(step=step, when="right after the clock edge", src=sv, en=ev_, port_o=po, port_oe=poe,
                                    expected_o=to_port(sv), expected_oe=full if ev_ else 0))
                    return
                ctx.set(cd.clk, 0)
                if bdir == "io":
                    ctx.set(cd.clk, 1)
                    ctx.set(cd.clk, 0)
            po, poe = ctx.get(port.o), ctx.get(port.oe)
            out["evaluations"] += 1
            if (po, poe) != (to_port(sv), full if ev_ else 0):
                bad.append(dict(step=step, src=sv, en=ev_, port_o=po, port_oe=poe, expected_o=to_port(sv), expected_oe=full if ev_ else 0))
                return
            if bdir == "io":
                gi = ctx.get(got_i)
                exp = sv if ev_ else from_port(pi)
                if gi != exp:
                    bad.append(dict(step=step, src=sv, en=ev_, pad_i=pi, fabric_i=gi, expected_i=exp))
                    return
    sim.add_testbench(tb)
    sim.run()
    if bad:
        out["violations"].append({"mechanism": "buffers-on-slices-of-one-port:" + ("port-output" if "port_o" in bad[0] else "fabric-input"),
                                  "detail": dict(config=cfg, **bad[0])})
    out["fps"].add(fp(cfg))


def shards(tier, seed):
    specs = [{"kind": "buffer-enum", "width": w} for w in range(0, 4)]
    n = 48 if tier == "quick" else 2400
    for i in range(NSHARDS):
        specs.append({"kind": "sample", "seed": seed, "shard": i, "n": n, "tier": tier})
    return specs


def guard(out, fn):
    try:
        fn()
    except V as v:
        out["violations"].append({"mechanism": v.mech, "detail": v.detail})
    except Exception as e:
        if exc_origin(e) != "repo":
            raise
        out["violations"].append({"mechanism": f"exception:{type(e).__name__}", "detail": {"exception": repr(e)[:300]}})


def run_shard(spec):
    instrument.install_slot_invariant()
    out = {"evaluations": 0, "fps": set(), "hist": {}, "violations": [], "samples": [], "exhaustive": [],
           "extra": {"netlists_checked": 0}}
    if spec["kind"] == "buffer-enum":
        w = spec["width"]
        rng = derive_rng("c18e", w)
        for inv in itertools.product((False, True), repeat=w):
            for pdir in ("i", "o", "io"):
                for bdir in ("i", "o", "io"):
                    guard(out, lambda: check_buffer(w, inv, pdir, bdir, rng, out, True))
        out["exhaustive"].append(f"Buffer on SimulationPort width {w}: all masks x directions x (o, oe, port.i) values")
    else:
        rng = derive_rng("c18", spec["seed"], spec["shard"])
        for k in range(spec["n"]):
            w = rng.choice([0, 1, 2, 3, 4, 5, 5, 8])
            inv = tuple(rng.random() < 0.5 for _ in range(w))
            pdir, bdir = rng.choice(["i", "o", "io", "io"]), rng.choice(["i", "o", "io"])
            guard(out, lambda: check_buffer(w, inv, pdir, bdir, rng, out, False))
            idn, odn = rng.choice([None, "sync", "inp"]), rng.choice([None, "sync", "outp"])
            if bdir == "o" and rng.random() < 0.8:
                idn = None
            if bdir == "i" and rng.random() < 0.8:
                odn = None
            out["hist"][f"ffbuffer:{bdir}:i_domain={idn}:o_domain={odn}"] = out["hist"].get(f"ffbuffer:{bdir}:i_domain={idn}:o_domain={odn}", 0) + 1
            guard(out, lambda: check_ffbuffer(w, inv, pdir, bdir, idn, odn, rng, out))
            for _ in range(4):
                guard(out, lambda: check_algebra(rng, out))
            guard(out, lambda: check_split_buffers(rng, out))
        if spec["shard"] == 0:
            out["samples"].append({"config": {"kind": "FFBuffer", "width": 3, "invert": [False, True, True]},
                                   "model": "pad.o = o_ff ^ 0b110, pad.oe = oe_ff x3, i = i_ff; one register per direction"})
        try:
            from . import c18_real
            c18_real.run(rng, out, 12 if spec["tier"] == "quick" else 60)
            c18_real.run_composite(rng, out, 80 if spec["tier"] == "quick" else 600)
            c18_real.run_crossfeed(rng, out, 6 if spec["tier"] == "quick" else 40)
        except ImportError:
            pass
    out["violations"].extend(instrument.VIOLATIONS)
    instrument.VIOLATIONS.clear()
    out["monitors"] = dict(instrument.COUNTERS)
    out["fps"] = sorted(out["fps"])
    return out
