"""C09 Elaboration and simulation are reproducible."""
import hashlib
import io
import json
import os
import subprocess
import sys
import tempfile
import zipfile

from .. import instrument
from ..common import derive_rng, fp, exc_origin

PROPERTY = "C09"
LEVEL = "exploration"
RULE = ("conversion: designs biased to leak set order (2-8 implicitly created clock domains with names of "
        "varied hash, domains used only by memory ports / ClockSignal / submodules / FSM states in "
        "several domains, name clashes, anonymous submodules, DomainRenamers) are rebuilt from their "
        "IR and converted in separate interpreters under PYTHONHASHSEED in {0,1,2,3}+random seeds and "
        "twice inside one interpreter, and one design object is converted three times (the third after a "
        "Simulator was created on it): all SHA-256 digests per design must be equal (emit_src on/off). "
        "simulation: generated programs (C02 generator, memories, a process replacing combinational "
        "logic, add_clock) are simulated in two fresh simulators, then reset() and re-run, also after "
        "run_until() to a mid-point: identical observation traces, and every signal and memory row "
        "back at its initial contents right after reset(). plans: generated platforms (C19 tables), "
        "build(do_build=False) twice -> equal files and digest; archive three times byte-identical with "
        "sorted members, the repeats under a wall clock shifted by 3 s .. 400 days and from another "
        "working directory; extract writes exactly the planned files. distinct/non-trivial = designs with "
        ">= 2 implicit domains, programs with >= 1 register, plans.")
ASSUMPTIONS = ["'all PYTHONHASHSEED values' is sampled (4 fixed + random seeds per tier)",
               "post-reset state is read through the public ctx.get at time 0 of the rerun and through the engine's state slots"]
REQUIRED_MONITORS = []
MIN_NONTRIVIAL = {"quick": 150, "thorough": 1500}
NSHARDS = 16
ROOT = os.path.dirname(os.path.dirname(os.path.dirname(os.path.abspath(__file__))))

DOMAIN_NAMES = ["sync", "a", "b", "pix", "usb", "fast", "slow", "d0", "d1", "d2", "d3", "clk100", "mem", "x", "core", "io"]


# ---- conversion designs -----------------------------------------------------------------------------
def gen_conv(rng):
    nd = rng.randrange(2, 9)
    doms = rng.sample(DOMAIN_NAMES, nd)
    defined = [d for d in doms if rng.random() < 0.25]
    nmod = rng.randrange(1, 6)
    tree = [-1] + [rng.randrange(0, k) for k in range(1, nmod)]
    anon = [False] + [rng.random() < 0.4 for _ in range(1, nmod)]
    items = []
    for _ in range(rng.randrange(2, 10)):
        kind = rng.choice(["reg", "reg", "fsm", "mem", "clocksig", "renamed", "cached"])
        it = {"kind": kind, "mod": rng.randrange(nmod), "dom": rng.choice(doms), "name": rng.choice(["a", "b", "ctr", "x", "state"])}
        if kind == "fsm":
            it["doms"] = rng.sample(doms, min(len(doms), rng.randrange(1, 4)))
        if kind == "mem":
            it["rdom"] = rng.choice(doms + ["comb"])
        if kind == "renamed":
            it["to"] = rng.choice(doms)
        if kind == "cached":
            it["cached_as"] = "instance" if rng.random() < 0.15 else "module"
        items.append(it)
    return {"doms": doms, "defined": defined, "tree": tree, "anon": anon, "items": items}


def build_conv(d):
    from amaranth.hdl import Module, Signal, ClockDomain, ClockSignal, ResetSignal, DomainRenamer
    from amaranth.lib.memory import Memory
    nmod = len(d["tree"])
    mods = [Module() for _ in range(nmod)]
    outs = []
    extra = [[] for _ in range(nmod)]
    for k, it in enumerate(d["items"]):
        m = mods[it["mod"]]
        if it["kind"] == "reg":
            s = Signal(4, name=it["name"])
            m.d[it["dom"]] += s.eq(s + 1)
            outs.append(s)
        elif it["kind"] == "fsm":
            s = Signal(3, name=it["name"])
            with m.FSM(domain=it["dom"], name=f"fsm{k}"):
                with m.State("A"):
                    for j, dm in enumerate(it["doms"]):
                        r = Signal(2, name=f"f{k}_{j}")
                        m.d[dm] += r.eq(r + 1)
                        outs.append(r)
                    m.d.comb += s.eq(1)
                    m.next = "B"
                with m.State("B"):
                    for j, dm in enumerate(reversed(it["doms"])):
                        r = Signal(2, name=f"g{k}_{j}")
                        m.d[dm] += r.eq(r - 1)
                        outs.append(r)
                    m.next = "A"
            outs.append(s)
        elif it["kind"] == "mem":
            mem = Memory(shape=4, depth=4, init=[1, 2, 3, 4])
            m.submodules += mem
            wp = mem.write_port(domain=it["dom"])
            rp = mem.read_port(domain=it["rdom"])
            o = Signal(4, name=it["name"])
            actr = Signal(4, name="actr")
            m.d[it["dom"]] += actr.eq(actr + 5)
            m.d.comb += [o.eq(rp.data), wp.data.eq(actr), wp.en.eq(actr[0]), wp.addr.eq(actr[:2]), rp.addr.eq(actr[2:])]
            outs.append(o)
        elif it["kind"] == "clocksig":
            o = Signal(2, name=it["name"])
            m.d.comb += o.eq(ClockSignal(it["dom"]) ^ (ResetSignal(it["dom"], allow_reset_less=True) << 1))
            outs.append(o)
        elif it["kind"] == "cached":
            # an elaboratable that builds its contents once and hands out the same object at every elaboration
            s = Signal(4, name=it["name"])
            outs.append(s)
            extra[it["mod"]].append(_cached_wrapper(s, as_module=it.get("cached_as") != "instance", dom=it["dom"]))
        else:
            sub = Module()
            s = Signal(4, name=it["name"])
            sub.d.sync += s.eq(s + 3)
            extra[it["mod"]].append(DomainRenamer({"sync": it["to"]})(sub))
            outs.append(s)
    for k in range(nmod):
        for e in extra[k]:
            mods[k].submodules += e
    for k in range(nmod - 1, 0, -1):
        p = mods[d["tree"][k]]
        if d["anon"][k]:
            p.submodules += mods[k]
        else:
            setattr(p.submodules, f"m{k}", mods[k])
    for name in d["defined"]:
        setattr(mods[0].domains, name, ClockDomain(name))
    return mods[0], outs


def _cached_wrapper(sig, as_module, dom):
    from amaranth.hdl import Elaboratable, Instance, Module, Signal

    class Cached(Elaboratable):
        def __init__(self):
            if as_module:
                self.body = Module()
                self.body.d[dom] += sig.eq(sig + 5)
            else:
                self.body = Instance("prim", o_q=sig, p_WIDTH=4)

        def elaborate(self, platform):
            return self.body
    return Cached()


def convert_design(d, emit_src):
    from amaranth.back import rtlil
    top, outs = build_conv(d)
    return rtlil.convert(top, ports=outs, emit_src=emit_src)


def run_driver(designs, hashseed):
    fd, path = tempfile.mkstemp(suffix=".json")
    os.close(fd)
    try:
        json.dump(designs, open(path, "w"))
        env = dict(os.environ, PYTHONHASHSEED=str(hashseed), PYTHONPATH=ROOT, PYTHONDONTWRITEBYTECODE="1")
        p = subprocess.run([sys.executable, "-m", "vf.c09_driver", path], cwd=ROOT, env=env, timeout=600,
                           stdout=subprocess.PIPE, stderr=subprocess.PIPE)
        if p.returncode != 0:
            raise RuntimeError(p.stderr.decode()[-800:])
        return json.loads(p.stdout.decode())
    finally:
        os.unlink(path)


def check_conversion(rng, out, ndesigns, seeds):
    designs = [gen_conv(rng) for _ in range(ndesigns)]
    results = {s: run_driver(designs, s) for s in seeds}
    out["extra"]["hash_seeds"] = sorted(set(out["extra"].get("hash_seeds", [])) | set(seeds))
    for k, d in enumerate(designs):
        implicit = [x for x in d["doms"] if x not in d["defined"]]
        rows = {s: results[s][k] for s in seeds}
        out["evaluations"] += len(seeds)
        first = rows[seeds[0]]
        if any(str(first[0]).startswith("EXC:") for r in rows.values() for first in [r]):
            excs = sorted({r[0] for r in rows.values() if str(r[0]).startswith("EXC:")})
            if len(excs) == 1 and all(r[0] == excs[0] for r in rows.values()):
                out["hist"]["conversion-exception-everywhere:" + excs[0][:40]] = out["hist"].get("conversion-exception-everywhere:" + excs[0][:40], 0) + 1
                continue
            out["violations"].append({"mechanism": "conversion-outcome-depends-on-hash-seed",
                                      "detail": {"design": d, "outcomes": {str(s): r[0][:60] for s, r in rows.items()}}})
            continue
        for s, r in rows.items():
            if r[0] != r[1]:
                out["violations"].append({"mechanism": "rtlil-differs-between-two-conversions-in-one-interpreter",
                                          "detail": {"design": d, "hashseed": s}})
                break
        for s, r in rows.items():
            if not (r[0] == r[4] == r[5] == r[6]):
                which = [n for n, x in (("first", r[4]), ("second", r[5]), ("after-creating-a-simulator", r[6])) if x != r[0]]
                excs = sorted({str(x).split(":")[1] for x in (r[5], r[6]) if str(x).startswith("EXC:")})
                mech = "same-design-object-cannot-be-elaborated-again:" + "+".join(excs) if excs else \
                       "rtlil-differs-when-the-same-design-object-is-elaborated-again"
                out["violations"].append({"mechanism": mech,
                                          "detail": {"design": d, "hashseed": s, "differs": which, "outcomes": [str(x)[:80] for x in r[4:7]],
                                                     "has_fsm": any(it["kind"] == "fsm" for it in d["items"]),
                                                     "has_cached_instance": any(it["kind"] == "cached" and it.get("cached_as") == "instance" for it in d["items"])}})
                break
        out["hist"]["same-object-elaborated-3x"] = out["hist"].get("same-object-elaborated-3x", 0) + len(rows)
        dig = {r[0] for r in rows.values()}
        dig_src = {r[2] for r in rows.values()}
        out["extra"]["designs_converted"] += 1
        out["hist"][f"implicit-domains:{min(len(implicit), 6)}"] = out["hist"].get(f"implicit-domains:{min(len(implicit), 6)}", 0) + 1
        if len(dig) > 1 or len(dig_src) > 1:
            port_orders = {str(s): r[3][:12] for s, r in rows.items()}
            out["violations"].append({"mechanism": "rtlil-depends-on-hash-seed",
                                      "detail": {"design": d, "distinct_digests": len(dig), "implicit_domains": implicit,
                                                 "n_implicit": len(implicit), "port_order_by_seed": port_orders,
                                                 "has_multi_domain_fsm": any(it["kind"] == "fsm" and len(it.get("doms", [])) > 1 for it in d["items"])}})
        if len(implicit) >= 2:
            out["fps"].add(fp(["conv", d]))


# ---- simulation reproducibility -----------------------------------------------------------------------
def sim_case(rng, out):
    from amaranth.hdl import Module, Signal, ClockDomain, Period, Cat
    from amaranth.lib.memory import Memory
    from amaranth.sim import Simulator
    from .. import stmt as S
    g = S.Gen(rng, max_nest=rng.randint(1, 3), max_stmts=rng.randint(2, 8))
    sp = g.spec()
    with_mem = rng.random() < 0.5
    with_proc = rng.random() < 0.6
    period = rng.choice([2, 10, 14, 1000])
    nticks = rng.randrange(6, 20)
    mid = rng.choice([None, rng.randrange(1, nticks)])
    stim = [[rng.getrandbits(w) for (w, s) in sp.inputs] for _ in range(nticks)]
    memw = [rng.getrandbits(4) for _ in range(nticks)]
    with_cleanup = rng.random() < 0.5      # the testbench restores/parks its inputs in a `finally:` block

    def make():
        b = S.build_module(sp)
        m = b.m
        extra = {}
        if with_mem:
            mem = Memory(shape=4, depth=4, init=[3, 1, 4, 1])
            m.submodules.mem = mem
            wp = mem.write_port()
            rp = mem.read_port(domain="comb")
            ctr = Signal(2)
            m.d.sync += ctr.eq(ctr + 1)
            wd = Signal(4)
            m.d.comb += [wp.addr.eq(ctr), wp.data.eq(wd), wp.en.eq(1), rp.addr.eq(ctr + 1)]
            extra.update(mem=mem, wd=wd, rp=rp)
        if with_proc:
            src = Signal(4, name="psrc")
            dst = Signal(4, name="pdst", init=9)
            m.d.sync += src.eq(src + 3)
            extra.update(src=src, dst=dst)
        sim = Simulator(m)
        sim.add_clock(Period(fs=period * 1000 if period < 100 else period * 1000), domain="sync")
        trace = []
        if with_proc:
            # the process also watches an input the testbench drives (and parks in its `finally:` block) and
            # logs what it sees: its log is part of the observation trace
            async def proc(ctx):
                async for vals in ctx.changed(extra["src"], *b.sigs[:min(1, sp.ni)]):
                    ctx.set(extra["dst"], (vals[0] ^ 5) & 15)
                    trace.append(["process-saw", list(vals)])
            sim.add_process(proc)
        watch = [s for s in b.sigs[sp.ni:] if s is not None]

        async def tb(ctx):
            def snap():
                row = [ctx.get(s) for s in watch]
                if with_mem:
                    row += [ctx.get(extra["mem"].data[i]) for i in range(4)] + [ctx.get(extra["rp"].data)]
                if with_proc:
                    row += [ctx.get(extra["dst"])]
                row.append(ctx.elapsed_time().femtoseconds if hasattr(ctx.elapsed_time(), "femtoseconds") else str(ctx.elapsed_time()))
                return row
            trace.append(snap())
            try:
                for k in range(nticks):
                    for sig, v in zip(b.sigs[:sp.ni], stim[k]):
                        ctx.set(sig, v)
                    if with_mem:
                        ctx.set(extra["wd"], memw[k])
                    await ctx.tick()
                    trace.append(snap())
            finally:
                if with_cleanup:
                    for sig in b.sigs[:sp.ni]:
                        ctx.set(sig, (sig.init ^ 1) & ((1 << len(sig)) - 1) if len(sig) else 0)
                    if with_mem:
                        ctx.set(extra["wd"], 0xA)
                        ctx.set(extra["mem"].data[2], 0xC)
        sim.add_testbench(tb)
        return sim, trace, b, extra, watch
    cfg = {"spec": sp.d, "with_mem": with_mem, "with_proc": with_proc, "period": period, "nticks": nticks, "mid": mid,
           "testbench_sets_in_finally": with_cleanup}

    def V(mech, **kw):
        out["violations"].append({"mechanism": mech, "detail": dict(config=cfg, **kw)})
    try:
        sim1, tr1, b1, ex1, watch1 = make()
        sim1.run()
        ref = [list(r) for r in tr1]
        sim2, tr2, _, _, _ = make()
        sim2.run()
        out["evaluations"] += 2
        if tr2 != ref:
            V("two-fresh-simulations-differ", first_difference=next(i for i, (x, y) in enumerate(zip(ref, tr2)) if x != y) if len(tr2) == len(ref) else -1)
            return
        # reset and rerun
        del tr1[:]
        sim1.reset()
        if stale_after_reset(sim1, out, V, "after a completed run"):
            return
        sim1.run()
        out["extra"]["reset_reruns"] += 1
        if tr1 != ref:
            k = next((i for i, (x, y) in enumerate(zip(ref, tr1)) if x != y), -1)
            V("rerun-after-reset-differs", first_difference=k, reference=ref[k] if k >= 0 else None, rerun=tr1[k] if 0 <= k < len(tr1) else None)
            return
        if mid is not None:
            sim3, tr3, _, _, _ = make()
            from amaranth.hdl import Period as P_
            sim3.run_until(P_(fs=int(mid * period * 1000 + period * 300)))
            del tr3[:]
            sim3.reset()
            if stale_after_reset(sim3, out, V, "in the middle of a run"):
                return
            sim3.run()
            out["extra"]["mid_run_resets"] += 1
            if tr3 != ref:
                k = next((i for i, (x, y) in enumerate(zip(ref, tr3)) if x != y), -1)
                V("rerun-after-mid-run-reset-differs", first_difference=k)
                return
    except Exception as ex:
        if exc_origin(ex) != "repo":
            raise
        V(f"simulation-exception:{type(ex).__name__}", exception=repr(ex)[:300])
        return
    if sp.ns:
        out["fps"].add(fp(["sim", cfg["spec"], with_mem, with_proc, period]))


def stale_after_reset(sim, out, V, when):
    """every signal and memory row back at its initial contents (engine state, before running again)"""
    st = sim._engine._state
    bad = []
    for slot in st.slots:
        sig = getattr(slot, "signal", None)
        if sig is not None:
            if slot.curr != sig.init or slot.next != sig.init:
                bad.append(["signal", sig.name, slot.curr, sig.init])
        elif hasattr(slot, "memory"):
            init = list(slot.memory._init._raw)
            if list(slot.data) != init:
                bad.append(["memory", list(slot.data), init])
    out["extra"]["post_reset_slots_checked"] += len(st.slots)
    if bad:
        V("state-not-initial-after-reset", stale=bad[:4], reset_called=when)
    return bool(bad)


# ---- build plans ------------------------------------------------------------------------------------------
def plan_case(rng, out, vendor):
    from amaranth.hdl import Module, Signal, Elaboratable, ClockDomain
    from amaranth.lib import io as aio
    from . import c19
    table = c19.gen_table(rng, for_plan=True)
    if vendor == "ice40":
        # some plain input pins are marked as global-buffer inputs (an attribute the iCE40 lowering consumes)
        for r in table["resources"]:
            nd = r["node"]
            if nd[0] == "pins" and nd[2] == "i" and not nd[3] and rng.random() < 0.6:
                r["node"] = (nd[0], nd[1], nd[2], nd[3], nd[4], nd[5], dict(nd[6], GLOBAL=1))
    use = [r for r in table["resources"] if rng.random() < 0.7] or table["resources"][:1]
    seedv = rng.getrandbits(32)
    # one board definition (resource and connector objects), as a board file has it at class level; half of the
    # cases prepare both plans from it, the others build the definition afresh for the second plan
    shared = c19.build_table(table) if rng.random() < 0.5 else None

    def make_plan():
        import random
        r2 = random.Random(seedv)
        ress, conns = shared if shared is not None else c19.build_table(table)
        p, cfile = c19.make_platform(vendor, ress, conns, None)

        class D(Elaboratable):
            def elaborate(self, platform):
                m = Module()
                m.domains.sync = ClockDomain("sync")
                ctr = Signal(8)
                m.d.sync += ctr.eq(ctr + 1)
                # a clock constraint on a signal created during elaboration (a divider output): the constraint
                # file names it through the design's hierarchy
                slow = Signal(name="slow_clk")
                m.d.sync += slow.eq(ctr[3])
                platform.add_clock_constraint(slow, 1e6)
                # extra files of the design, some several directories deep
                platform.add_file("notes.txt", "top level\n")
                platform.add_file("ip/rom/boot.hex", b"00 01 02\n")
                platform.add_file("ip/rom/tables/sine.mem", "7f\n")
                k = 0
                for r in use:
                    port = platform.request(r["name"], r["number"], dir="-")
                    for (path, node, pp, pn) in c19.leaves(table, r):
                        obj = port
                        for sub in path[1:]:
                            obj = getattr(obj, sub)
                        d = node[2] if node[0] == "pins" else node[3]
                        bd = {"i": "i", "o": "o", "oe": "o", "io": "o"}[d]
                        buf = aio.Buffer(bd, obj)
                        m.submodules[f"buf{k}"] = buf
                        k += 1
                        if bd == "o":
                            m.d.comb += buf.o.eq(ctr)
                        else:
                            x = Signal(len(obj))
                            m.d.sync += x.eq(buf.i)
                return m
        return p.build(D(), do_build=False)
    cfg = {"vendor": vendor, "table": table, "board_definition_shared_by_both_plans": shared is not None}
    # the second preparation and the second and third archive run under a shifted wall clock (virtual time, so the
    # check does not have to wait for the seconds to pass) and from another working directory
    shift = rng.choice([3, 61, 3601, 86400 * 3, 86400 * 400])
    cfg["clock_shift_s"] = shift
    try:
        p1 = make_plan()
    except Exception as ex:
        if exc_origin(ex) != "repo":
            raise
        out["hist"]["plan-exception:" + type(ex).__name__] = out["hist"].get("plan-exception:" + type(ex).__name__, 0) + 1
        return
    try:
        with shifted_clock(shift):
            p2 = make_plan()
    except Exception as ex:
        if exc_origin(ex) != "repo":
            raise
        out["violations"].append({"mechanism": "second-preparation-of-the-same-plan-raises:" + type(ex).__name__,
                                  "detail": dict(cfg, exception=repr(ex)[:300])})
        return
    out["evaluations"] += 1
    out["extra"]["plans"] += 1

    def V(mech, **kw):
        out["violations"].append({"mechanism": mech, "detail": dict(cfg, **kw)})
    if list(p1.files) != list(p2.files) or any(p1.files[k] != p2.files[k] for k in p1.files):
        diff = [k for k in p1.files if p1.files.get(k) != p2.files.get(k)]
        V("plan-files-differ-between-two-preparations", files=diff[:5])
        return
    if p1.digest() != p2.digest():
        V("plan-digest-differs")
        return
    # digest is independent of the insertion order of files
    from amaranth.build.run import BuildPlan
    p3 = BuildPlan(p1.script)
    for k in reversed(list(p1.files)):
        p3.add_file(k, p1.files[k])
    if p3.digest() != p1.digest():
        V("plan-digest-depends-on-file-order")
    a1 = io_bytes(p1)
    with shifted_clock(shift):
        a2 = io_bytes(p2)
    with shifted_clock(-shift):
        a3 = io_bytes(p3)
    out["hist"][f"archive-under-clock-shift:{shift}s"] = out["hist"].get(f"archive-under-clock-shift:{shift}s", 0) + 1
    if a1 != a2 or a1 != a3:
        V("archive-not-deterministic", same_plan_twice=a1 == a2, reordered=a1 == a3)
        return
    zf = zipfile.ZipFile(io.BytesIO(a1))
    names = zf.namelist()
    if names != sorted(p1.files):
        V("archive-members-not-the-sorted-planned-files", members=names[:8])
    for nm in names:
        c = p1.files[nm]
        c = c.encode() if isinstance(c, str) else c
        if zf.read(nm) != c:
            V("archive-member-content-differs", member=nm)
            break
    with tempfile.TemporaryDirectory() as td:
        root = os.path.join(td, "build")
        try:
            got_root = p1.extract(root)
        except Exception as ex:
            if exc_origin(ex) != "repo" and not isinstance(ex, OSError):
                raise
            V("extract-raises:" + type(ex).__name__, exception=repr(ex)[:200], planned=sorted(p1.files)[:12])
            return
        found = {}
        for dp, dn, fn in os.walk(root):
            for f in fn:
                full = os.path.join(dp, f)
                found[os.path.relpath(full, root).replace(os.sep, "/")] = open(full, "rb").read()
        exp = {k: (v.encode() if isinstance(v, str) else v) for k, v in p1.files.items()}
        if found != exp:
            V("extract-does-not-write-exactly-the-planned-files", extra=sorted(set(found) - set(exp))[:5], missing=sorted(set(exp) - set(found))[:5],
              differing=[k for k in exp if k in found and found[k] != exp[k]][:5])
        out["extra"]["files_extracted"] += len(found)
    out["fps"].add(fp(["plan", vendor, table]))


class shifted_clock:
    """time.time() (hence time.localtime()/gmtime() without argument, datetime.now()) moved by `delta` seconds and
    the working directory changed for the duration of the block."""
    def __init__(self, delta):
        self.delta = delta

    def __enter__(self):
        import time
        self.real_time, self.real_localtime, self.real_gmtime = time.time, time.localtime, time.gmtime
        real_time, real_localtime, real_gmtime, delta = self.real_time, self.real_localtime, self.real_gmtime, self.delta
        time.time = lambda: real_time() + delta
        time.localtime = lambda secs=None: real_localtime(real_time() + delta if secs is None else secs)
        time.gmtime = lambda secs=None: real_gmtime(real_time() + delta if secs is None else secs)
        self.cwd = os.getcwd()
        self.td = tempfile.mkdtemp(prefix="c09cwd.")
        os.chdir(self.td)
        instrument.COUNTERS["clock_shifted_blocks"] = instrument.COUNTERS.get("clock_shifted_blocks", 0) + 1
        return self

    def __exit__(self, *a):
        import time
        time.time, time.localtime, time.gmtime = self.real_time, self.real_localtime, self.real_gmtime
        os.chdir(self.cwd)
        os.rmdir(self.td)
        return False


def io_bytes(plan):
    bio = io.BytesIO()
    plan.archive(bio)
    return bio.getvalue()


def shards(tier, seed):
    specs = []
    for i in range(NSHARDS):
        specs.append({"seed": seed, "shard": i, "tier": tier, "conv": 24 if tier == "quick" else 200,
                      "sims": 12 if tier == "quick" else 120, "plans": 9 if tier == "quick" else 60})
    return specs


def run_shard(spec):
    instrument.install_slot_invariant()
    out = {"evaluations": 0, "fps": set(), "hist": {}, "violations": [], "samples": [], "exhaustive": [],
           "extra": {"designs_converted": 0, "post_reset_slots_checked": 0, "reset_reruns": 0, "mid_run_resets": 0,
                     "plans": 0, "files_extracted": 0, "hash_seeds": []}}
    rng = derive_rng("c09", spec["seed"], spec["shard"])
    nrand = 1 if spec["tier"] == "quick" else 6
    seeds = [0, 1, 2, 3] + [rng.randrange(4, 1 << 30) for _ in range(nrand)]
    check_conversion(rng, out, spec["conv"], seeds)
    for _ in range(spec["sims"]):
        sim_case(rng, out)
    for k in range(spec["plans"]):
        plan_case(rng, out, ["ice40", "ecp5", "gowin"][(k + spec["shard"]) % 3])
    if spec["shard"] == 0:
        out["samples"].append({"conversion": "each design IR is rebuilt and converted under PYTHONHASHSEED in " + str(seeds),
                               "example_design": gen_conv(derive_rng("c09-sample"))})
    out["violations"].extend(instrument.VIOLATIONS)
    instrument.VIOLATIONS.clear()
    out["monitors"] = dict(instrument.COUNTERS)
    out["fps"] = sorted(out["fps"])
    return out


def finalize(m, tier, seed):
    ex = m["extra"]
    ex["hash_seeds"] = sorted(set(ex.get("hash_seeds", [])))[:40]
    if not m["violations"]:
        for k in ("designs_converted", "reset_reruns", "plans", "post_reset_slots_checked"):
            if ex.get(k, 0) == 0:
                m["inconclusive"].append(f"monitor never reached: {k}")
