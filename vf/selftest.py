"""setup_cmd: self-tests of the trusted base (reference models), offline, no repository needed
except for importability.  Exits non-zero if a reference model disagrees with Python arithmetic."""
import itertools
import sys


def test_common():
    from vf.common import norm, fits, unify, ext_bit, value_range
    for w in range(0, 6):
        for s in (False, True):
            if s and w == 0:
                continue
            r = value_range(w, s)
            for v in range(-70, 70):
                n = norm(v, w, s)
                assert n in r and (n - v) % (1 << w) == 0, (v, w, s, n)
                assert fits(v, w, s) == (v in r)
    assert unify([(3, False), (3, True)]) == (4, True)
    assert unify([(5, False), (3, True)]) == (6, True)
    assert unify([]) == (0, False)
    assert ext_bit(-2, 2, True, 5) == 1 and ext_bit(2, 2, False, 5) == 0


def test_exprref():
    from vf import expr as X
    from vf.common import fits, value_range
    # every exact result of every single operator fits the documented shape (widths <= 3)
    from vf.checks.c01 import enum_single
    n = 0
    for env, e in enum_single(3):
        env = [tuple(x) for x in env]
        try:
            sh = X.ref_shape(e, env)
        except X.IllFormed:
            continue
        for vals in itertools.product(*[value_range(w, s) for (w, s) in env]):
            v = X.ref_eval(e, env, vals)
            assert fits(v, *sh), (e, env, vals, v, sh)
            n += 1
    return n


def main():
    sys.path.insert(0, ".")
    from vf.common import setup_repo_path
    setup_repo_path()
    test_common()
    n = test_exprref()
    print(f"selftest ok: exprref {n} evaluations fit their documented shapes")
    from vf.checks import c16
    print(f"selftest ok: crcref reproduces {c16.selftest()} published check values")
    try:
        from vf.rtlil import cells
        print("rtlil cells:", cells.selftest())
    except ImportError:
        pass


if __name__ == "__main__":
    main()
