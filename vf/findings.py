"""Known-findings classifier. known_findings.json is committed and never written at run time.

An entry: {"property", "key", "status": "known" | "fixed: <commit>", "predicate", "description",
"witness"}.  `predicate` names a function below that recognises the *mechanism* of a violation
record (never a case hash or random values).  Only status == "known" suppresses; "fixed" entries
are documentation and suppress nothing.
"""
import json
import os

ROOT = os.path.dirname(os.path.dirname(os.path.abspath(__file__)))
PATH = os.path.join(ROOT, "known_findings.json")

PREDICATES = {}


def predicate(fn):
    PREDICATES[fn.__name__] = fn
    return fn


def load():
    if not os.path.exists(PATH):
        return []
    with open(PATH) as f:
        return json.load(f)["findings"]


def classify(pid, violations):
    """-> (known: key -> (entry, count, first witness), fresh: [violation])"""
    entries = [e for e in load() if e["property"] == pid and e["status"] == "known"]
    known = {}
    fresh = []
    for v in violations:
        hit = None
        for e in entries:
            fn = PREDICATES.get(e["predicate"])
            try:
                if fn is not None and fn(v):
                    hit = e
                    break
            except Exception:
                continue
        if hit is None:
            fresh.append(v)
        else:
            ent, cnt, wit = known.get(hit["key"], (hit, 0, v))
            known[hit["key"]] = (ent, cnt + 1, wit)
    return known, fresh


# ---------------------------------------------------------------------------------------------
# Mechanism predicates.  Each looks only at the structure of the violation record.
# ---------------------------------------------------------------------------------------------

@predicate
def async_reset_edge_runs_process(v):
    """F4: in an asynchronous-reset domain the whole synchronous process body executes when the
    reset signal rises without a clock edge.  Record structure: the event that produced the
    mismatch is a rising edge of an async reset with no active clock edge of that domain in the
    same event, and the mismatching observation is one of: reset-less register advanced, memory
    port acted, sync Print/Assert fired."""
    d = v.get("detail", {})
    return v.get("mechanism") == "async-reset-edge-side-effect" and \
        d.get("event_kind") == "async_rst_rise_without_clk_edge"


@predicate
def asyncfifo_small_depth_does_not_elaborate(v):
    d = v.get("detail", {})
    return v.get("mechanism") == "constructible-depth-fails-to-elaborate" and \
        d.get("exception") == "IndexError" and \
        ((d.get("cls") == "AsyncFIFO" and d.get("depth_arg") == 1) or
         (d.get("cls") == "AsyncFIFOBuffered" and d.get("depth_arg") in (1, 2)))


def _t_sigs(t, acc):
    op = t[0]
    if op == "sig":
        acc.append(t[1])
    elif op in ("slice", "part", "as_signed", "as_unsigned"):
        _t_sigs(t[1], acc)
    elif op in ("cat", "array"):
        for p in t[1]:
            _t_sigs(p, acc)
    return acc


def _has_dup_cat(t):
    op = t[0]
    if op == "cat":
        leaves = []
        for p in t[1]:
            _t_sigs(p, leaves)
        if len(leaves) != len(set(leaves)):
            return True
    if op in ("slice", "part", "as_signed", "as_unsigned"):
        return _has_dup_cat(t[1])
    if op in ("cat", "array"):
        return any(_has_dup_cat(p) for p in t[1])
    return False


def _partial_over_dup_cat(t):
    """A slice/part (partial assignment) applied, directly or through nesting, to a Cat that lists
    the same signal more than once."""
    op = t[0]
    if op in ("slice", "part") and _has_dup_cat(t[1]):
        return True
    if op in ("slice", "part", "as_signed", "as_unsigned"):
        return _partial_over_dup_cat(t[1])
    if op in ("cat", "array"):
        return any(_partial_over_dup_cat(p) for p in t[1])
    return False


@predicate
def lhs_partial_write_over_duplicate_cat(v):
    """F14: the compiled simulator implements a partial assignment to a Cat(...) target as a
    read-modify-write of the *whole* concatenation; when the same signal occurs twice in the Cat the
    later (unmodified) copy overwrites the addressed bits.  The testbench writer, the documented
    semantics and the netlist touch exactly the addressed bits."""
    d = v.get("detail", {})
    t = d.get("target")
    return bool(t) and d.get("deviates") == "circuit" and _partial_over_dup_cat(t)


def _has_dimensioned_subsignature_with_port(ir):
    def has_port(sig):
        return any(m[3] == "port" or has_port(m[4]) for m in sig["members"])
    for name, flow, dims, kind, payload in ir["members"]:
        if kind == "sig":
            if dims and has_port(payload):
                return True
            if _has_dimensioned_subsignature_with_port(payload):
                return True
    return False


@predicate
def connect_array_of_subinterfaces(v):
    """F16: connect() walks SignatureMembers.flatten(), whose paths carry no indices for signature
    members with dimensions, and then does getattr(<list>, name): any port nested inside an array of
    sub-interfaces makes connect() raise AttributeError although every interface is compliant."""
    d = v.get("detail", {})
    mech = v.get("mechanism", "")
    ir = d.get("signature")
    return mech.startswith("exception:connect") and mech.endswith(":AttributeError") and \
        "'list' object has no attribute" in str(d.get("exception", "")) and \
        bool(ir) and _has_dimensioned_subsignature_with_port(ir)


@predicate
def identifier_with_whitespace_emitted_verbatim(v):
    """F20: user-given identifiers (signal names) are emitted verbatim after the backslash; RTLIL
    identifiers end at whitespace, so a name containing a blank or tab yields a document that does
    not parse."""
    d = v.get("detail", {})
    return v.get("mechanism") == "rtlil-does-not-parse" and d.get("whitespace_name") is True and \
        ("bad wire name" in str(d.get("error")) or "junk" in str(d.get("error")) or "bad" in str(d.get("error")))


@predicate
def clock_constraint_uses_undeduplicated_port_name(v):
    """F24: the vendor templates write port clock constraints under `port.name`, the pin constraints under the
    name the design gave the port after de-duplicating top-level names.  Record structure: a clock-line
    violation of a plan whose platform table contains the deliberately colliding resource pair, on exactly the
    colliding generated port name (with or without the `$n` suffix of the renamed twin)."""
    import re
    d = v.get("detail", {})
    col = (d.get("table") or {}).get("colliding")
    if not col or v.get("mechanism") not in ("constraint-file-clock-constrained-twice", "constraint-file-clock-on-undeclared-port",
                                            "constraint-file-clock-wrong-frequency", "constraint-file-declared-clock-missing"):
        return False
    base = f"bus_{col[0]}__d_1__io"
    return re.sub(r"\$\d+$", "", d.get("port", "")) == base


@predicate
def cached_fragment_cannot_be_elaborated_twice(v):
    """F25: an elaboratable whose elaborate() hands out the same Instance object every time makes the second
    elaboration of the design raise DuplicateElaboratable (Fragment.get prepends the origins again to the reused
    fragment).  Record structure: the re-elaboration mechanism with exactly that exception, on a design that
    contains such a cached Instance."""
    d = v.get("detail", {})
    return v.get("mechanism") == "same-design-object-cannot-be-elaborated-again:DuplicateElaboratable" and \
        d.get("has_cached_instance") is True
