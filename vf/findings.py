"""Known-findings classifier. known_findings.json is committed and never written at run time.

An entry: {"property", "key", "status": "known" | "fixed: <commit>", "predicate", "description",
"witness"}.  `predicate` names a function below that recognises the *mechanism* of a violation
record (never a case hash or random values).  Only status == "known" suppresses; "fixed" entries
are documentation and suppress nothing.
"""
import json
import os

ROOT = os.path.dirname(os.path.dirname(os.path.abspath(__file__)))
PATH = os.path.join(ROOT, "known_findings.json")

PREDICATES = {}


def predicate(fn):
    PREDICATES[fn.__name__] = fn
    return fn


def load():
    if not os.path.exists(PATH):
        return []
    with open(PATH) as f:
        return json.load(f)["findings"]


def classify(pid, violations):
    """-> (known: key -> (entry, count, first witness), fresh: [violation])"""
    entries = [e for e in load() if e["property"] == pid and e["status"] == "known"]
    known = {}
    fresh = []
    for v in violations:
        hit = None
        for e in entries:
            fn = PREDICATES.get(e["predicate"])
            try:
                if fn is not None and fn(v):
                    hit = e
                    break
            except Exception:
                continue
        if hit is None:
            fresh.append(v)
        else:
            ent, cnt, wit = known.get(hit["key"], (hit, 0, v))
            known[hit["key"]] = (ent, cnt + 1, wit)
    return known, fresh


# ---------------------------------------------------------------------------------------------
# Mechanism predicates.  Each looks only at the structure of the violation record.
# ---------------------------------------------------------------------------------------------

@predicate
def async_reset_edge_runs_process(v):
    """F4: in an asynchronous-reset domain the whole synchronous process body executes when the
    reset signal rises without a clock edge.  Record structure: the event that produced the
    mismatch is a rising edge of an async reset with no active clock edge of that domain in the
    same event, and the mismatching observation is one of: reset-less register advanced, memory
    port acted, sync Print/Assert fired."""
    d = v.get("detail", {})
    return v.get("mechanism") == "async-reset-edge-side-effect" and \
        d.get("event_kind") == "async_rst_rise_without_clk_edge"


@predicate
def asyncfifo_small_depth_does_not_elaborate(v):
    d = v.get("detail", {})
    return v.get("mechanism") == "constructible-depth-fails-to-elaborate" and \
        d.get("exception") == "IndexError" and \
        ((d.get("cls") == "AsyncFIFO" and d.get("depth_arg") == 1) or
         (d.get("cls") == "AsyncFIFOBuffered" and d.get("depth_arg") in (1, 2)))
