"""Engine E5: shard a check's workload over subprocesses, merge, classify, write evidence.

Exit codes: 0 held on everything observed (KNOWN-FINDING lines allowed), 1 violation,
2 inconclusive (a monitor was never reached, a shard timed out, an instrumentation target is gone).
"""
import concurrent.futures
import importlib
import json
import os
import shutil
import subprocess
import sys
import tempfile
import time

from . import findings

ROOT = os.path.dirname(os.path.dirname(os.path.abspath(__file__)))
PYTHON = os.environ.get("VERIF_PYTHON", "/venv/bin/python")
if not os.path.exists(PYTHON):
    PYTHON = sys.executable
NPROC = int(os.environ.get("VERIF_JOBS", "16"))


def load_check(pid):
    return importlib.import_module(f"vf.checks.{pid.lower()}")


def worker_env(extra=None):
    env = dict(os.environ)
    env["PYTHONPATH"] = ROOT
    env["PYTHONDONTWRITEBYTECODE"] = "1"
    env.setdefault("PYTHONHASHSEED", "0")
    env["PYTHONHASHSEED"] = os.environ.get("VERIF_HASHSEED", "0")
    # the guard for repository hooks (none are needed; kept for the interface)
    env["AMARANTH_VERIF"] = "1"
    if extra:
        env.update(extra)
    return env


def _run_one(pid, spec, workdir, idx, timeout):
    spec_path = os.path.join(workdir, f"spec{idx}.json")
    out_path = os.path.join(workdir, f"out{idx}.json")
    with open(spec_path, "w") as f:
        json.dump(spec, f)
    t0 = time.time()
    try:
        p = subprocess.run([PYTHON, "-m", "vf.worker", pid, spec_path, out_path],
                           cwd=ROOT, env=worker_env(spec.get("env")), timeout=timeout,
                           stdout=subprocess.PIPE, stderr=subprocess.PIPE)
    except subprocess.TimeoutExpired:
        return {"inconclusive": [f"shard {idx} timed out after {timeout}s (watchdog)"]}
    if not os.path.exists(out_path):
        tail = (p.stderr or b"").decode(errors="replace")[-1500:]
        return {"inconclusive": [f"shard {idx} died rc={p.returncode}: {tail}"]}
    with open(out_path) as f:
        res = json.load(f)
    res["_wall"] = time.time() - t0
    return res


def merge(results):
    out = {"evaluations": 0, "fps": set(), "hist": {}, "monitors": {}, "violations": [],
           "samples": [], "exhaustive": [], "inconclusive": [], "extra": {}}
    for r in results:
        out["evaluations"] += r.get("evaluations", 0)
        out["fps"].update(r.get("fps", []))
        for k, v in r.get("hist", {}).items():
            out["hist"][k] = out["hist"].get(k, 0) + v
        for k, v in r.get("monitors", {}).items():
            out["monitors"][k] = out["monitors"].get(k, 0) + v
        out["violations"].extend(r.get("violations", []))
        for s in r.get("samples", []):
            if len(out["samples"]) < 6:
                out["samples"].append(s)
        out["exhaustive"].extend(r.get("exhaustive", []))
        out["inconclusive"].extend(r.get("inconclusive", []))
        for k, v in r.get("extra", {}).items():
            if isinstance(v, (int, float)) and not isinstance(v, bool):
                if k.startswith("max_"):
                    out["extra"][k] = max(out["extra"].get(k, v), v)
                else:
                    out["extra"][k] = out["extra"].get(k, 0) + v
            elif isinstance(v, list):
                out["extra"].setdefault(k, []).extend(v)
            elif isinstance(v, dict):
                d = out["extra"].setdefault(k, {})
                for kk, vv in v.items():
                    if isinstance(vv, (int, float)) and not isinstance(vv, bool):
                        d[kk] = d.get(kk, 0) + vv
                    else:
                        d[kk] = vv
            else:
                out["extra"][k] = v
    return out


def run_check(pid, tier, seed, replay=None):
    t0 = time.time()
    mod = load_check(pid)
    if replay:
        with open(replay) as f:
            rec = json.load(f)
        return mod.replay(rec) if hasattr(mod, "replay") else _generic_replay(mod, rec)

    specs = mod.shards(tier, seed)
    timeout = getattr(mod, "SHARD_TIMEOUT", {}).get(tier, 900 if tier == "quick" else 7200)
    workdir = tempfile.mkdtemp(prefix=f"verif-{pid}-")
    try:
        with concurrent.futures.ThreadPoolExecutor(max_workers=NPROC) as ex:
            futs = [ex.submit(_run_one, pid, spec, workdir, i, timeout)
                    for i, spec in enumerate(specs)]
            results = [f.result() for f in futs]
    finally:
        shutil.rmtree(workdir, ignore_errors=True)

    m = merge(results)
    if hasattr(mod, "finalize"):
        mod.finalize(m, tier, seed)

    # required monitors must have fired
    for name in getattr(mod, "REQUIRED_MONITORS", []):
        if m["monitors"].get(name, 0) == 0:
            m["inconclusive"].append(f"monitor {name!r} was never reached")
    min_cases = getattr(mod, "MIN_NONTRIVIAL", {}).get(tier, 2)
    # checks that enumerate state graphs count distinct visited states instead of fingerprints
    distinct = len(m["fps"]) + int(m["extra"].pop("distinct_extra", 0))
    if distinct < min_cases and not m["violations"]:
        m["inconclusive"].append(f"only {distinct} distinct non-trivial cases (< {min_cases})")

    # classify violations
    known, fresh = findings.classify(pid, m["violations"])
    lines = []
    for key, (entry, count, witness) in sorted(known.items()):
        lines.append(f"KNOWN-FINDING: property={pid} {key}: {entry['description']} "
                     f"[{count} occurrence(s) this run]")
    os.makedirs(os.path.join(ROOT, "replays"), exist_ok=True)
    seen_mech = {}
    for v in fresh:
        mech = v.get("mechanism", "unspecified")
        seen_mech.setdefault(mech, []).append(v)
    if os.environ.get("VERIF_VERBOSE"):
        for mech, vs in sorted(seen_mech.items()):
            print(f"  [mech] {mech}: {len(vs)}  e.g. {json.dumps(vs[0].get('detail'), default=str)[:300]}")
    for i, (mech, vs) in enumerate(sorted(seen_mech.items())):
        if i >= 10:
            break
        safe = "".join(c if c.isalnum() or c in "-_" else "_" for c in mech)[:60]
        path = os.path.join("replays", f"{pid}-{safe}-{seed}.json")
        rec = dict(vs[0])
        rec["property"] = pid
        rec["occurrences"] = len(vs)
        rec["repo_head"] = _repo_head()
        with open(os.path.join(ROOT, path), "w") as f:
            json.dump(rec, f, indent=1, default=str)
        lines.append(f"VIOLATION property={pid} replay={path}")
        lines.append(f"  mechanism={mech} occurrences={len(vs)} first={json.dumps(vs[0].get('detail'), default=str)[:600]}")

    wall = time.time() - t0
    cov = {
        "evaluations": m["evaluations"],
        "distinct_nontrivial": distinct,
        "rule": getattr(mod, "RULE", ""),
        "samples": m["samples"] or [{"note": "no sample recorded"}],
        "histogram": dict(sorted(m["hist"].items())),
        "monitor_hits": m["monitors"],
        "shards": len(specs),
        "known_findings_seen": {k: c for k, (e, c, w) in known.items()},
    }
    if m["exhaustive"]:
        cov["exhaustive_subspaces"] = sorted(set(m["exhaustive"]))
        cov["exhaustive"] = bool(getattr(mod, "EXHAUSTIVE_OVERALL", False))
    cov.update(m["extra"])
    level = getattr(mod, "LEVEL", "exploration")
    ev = {
        "property_id": pid, "tier": tier, "seed": seed, "level": level,
        "coverage": cov,
        "assumptions": list(getattr(mod, "ASSUMPTIONS", [])),
        "wall_s": round(wall, 2),
        "violations": len(fresh),
        "verdict": ("violated" if fresh else "inconclusive" if m["inconclusive"] else "held"),
        "inconclusive_reasons": m["inconclusive"][:20],
    }
    os.makedirs(os.path.join(ROOT, "evidence"), exist_ok=True)
    with open(os.path.join(ROOT, "evidence", f"{pid}.json"), "w") as f:
        json.dump(ev, f, indent=1, default=str)

    for ln in lines:
        print(ln)
    print(f"{pid} tier={tier} seed={seed}: evaluations={m['evaluations']} "
          f"distinct_nontrivial={distinct} violations={len(fresh)} "
          f"known={sum(c for (_, c, _) in known.values())} wall={wall:.1f}s")
    if fresh:
        return 1
    if m["inconclusive"]:
        for r in m["inconclusive"][:10]:
            print(f"INCONCLUSIVE property={pid} reason={r}")
        return 2
    return 0


def _repo_head():
    try:
        return subprocess.run(["git", "-C", os.environ.get("VERIF_REPO", "/repo"), "rev-parse", "HEAD"],
                              stdout=subprocess.PIPE, stderr=subprocess.DEVNULL,
                              timeout=10).stdout.decode().strip()
    except Exception:
        return "unknown"


def _generic_replay(mod, rec):
    print(json.dumps(rec, indent=1, default=str))
    print("no dedicated replay for this check; record printed above")
    return 0
