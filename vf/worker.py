"""Shard worker: python -m vf.worker <Cxx> <spec.json> <out.json>."""
import json
import sys
import traceback


def main():
    pid, spec_path, out_path = sys.argv[1:4]
    from vf.common import setup_repo_path
    setup_repo_path()
    from vf.runner import load_check
    mod = load_check(pid)
    with open(spec_path) as f:
        spec = json.load(f)
    try:
        res = mod.run_shard(spec)
    except Exception as e:  # a harness fault is inconclusive, never a verdict on the repository
        res = {"inconclusive": [f"harness exception in shard: {type(e).__name__}: {e}\n"
                                + traceback.format_exc()[-2000:]]}
    with open(out_path, "w") as f:
        json.dump(res, f, default=str)


if __name__ == "__main__":
    main()
