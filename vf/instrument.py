"""Run-time hooks installed from the harness (no repository change).

* slot invariant: after every commit the stored integer of a signal lies in the range of its shape,
  memory rows likewise (C01 'STATE' anchor; armed in every simulator-based check).
* time monotonicity around _PyTimeline.advance (C08).
* schedule injection: ready-process / trigger / pending sets iterate in a seeded permutation.
All hooks count their hits; zero hits makes the run inconclusive (decided by the check).
"""
import random

from .common import fits

COUNTERS = {"slot_commit": 0, "mem_commit": 0, "timeline_advance": 0, "perm_iters": 0,
            "perm_multi": 0}
VIOLATIONS = []
_installed = {}


class MissingTarget(Exception):
    pass


def install_slot_invariant():
    if _installed.get("slot"):
        return
    from amaranth.sim import pysim
    try:
        S = pysim._PySignalState
        M = pysim._PyMemoryState
        orig_commit = S.commit
        orig_mcommit = M.commit
    except AttributeError as e:
        raise MissingTarget(str(e))

    def commit(self):
        r = orig_commit(self)
        COUNTERS["slot_commit"] += 1
        sh = self.signal.shape()
        if not fits(self.curr, sh.width, sh.signed):
            if len(VIOLATIONS) < 20:
                VIOLATIONS.append({"mechanism": "slot-out-of-range",
                                   "detail": {"signal": self.signal.name, "shape": repr(sh),
                                              "value": self.curr}})
        return r

    def mcommit(self):
        r = orig_mcommit(self)
        COUNTERS["mem_commit"] += 1
        sh = self.shape
        for i, v in enumerate(self.data):
            if not fits(v, sh.width, sh.signed):
                if len(VIOLATIONS) < 20:
                    VIOLATIONS.append({"mechanism": "memory-row-out-of-range",
                                       "detail": {"row": i, "shape": repr(sh), "value": v}})
        return r

    S.commit = commit
    M.commit = mcommit
    _installed["slot"] = True


def install_time_monitor():
    if _installed.get("time"):
        return
    from amaranth.sim import pysim
    try:
        T = pysim._PyTimeline
        orig = T.advance
    except AttributeError as e:
        raise MissingTarget(str(e))

    def advance(self):
        before = self.now
        r = orig(self)
        COUNTERS["timeline_advance"] += 1
        if self.now < before or not isinstance(self.now, int):
            VIOLATIONS.append({"mechanism": "time-went-backwards-or-non-integer",
                               "detail": {"before": before, "after": repr(self.now)}})
        return r

    T.advance = advance
    _installed["time"] = True


class PermSet(set):
    """A set whose iteration order is a fresh seeded permutation at every iteration."""
    rng = random.Random(0)
    identity = False
    orders_seen = None  # optional set of observed orders (by index signature)

    def __iter__(self):
        items = list(set.__iter__(self))
        COUNTERS["perm_iters"] += 1
        if len(items) > 1:
            COUNTERS["perm_multi"] += 1
            # canonical base order, so that the permutation is a function of the rng alone
            items.sort(key=_stable_key)
            if not PermSet.identity:
                PermSet.rng.shuffle(items)
            if PermSet.orders_seen is not None and len(PermSet.orders_seen) < 100000:
                PermSet.orders_seen.add(tuple(_stable_key(i) for i in items))
        return iter(items)


_keys = {}


def _stable_key(obj):
    k = _keys.get(id(obj))
    if k is None:
        k = len(_keys)
        _keys[id(obj)] = k
        _keepalive.append(obj)
    return k


_keepalive = []


def inject_schedule(sim, seed, identity=False):
    """Replace the ready sets of a constructed Simulator by permuting sets."""
    eng = sim._engine
    for attr in ("_processes", "_active_triggers"):
        if not hasattr(eng, attr):
            raise MissingTarget(attr)
    PermSet.rng = random.Random(seed)
    PermSet.identity = identity
    procs = PermSet(eng._processes)
    eng._processes = procs
    # _active_triggers is captured by reference in trigger states created later; replace before
    # any testbench is started (triggers are created lazily when awaited).
    at = PermSet(eng._active_triggers)
    eng._active_triggers = at
    st = eng._state
    if not hasattr(st, "pending"):
        raise MissingTarget("pending")
    pend = PermSet(st.pending)
    # every existing slot holds a reference to the old pending set
    for slot in st.slots:
        slot.pending = pend
    st.pending = pend
    return procs


def install_construction_contracts():
    """Post-conditions on Const(...) and Shape.cast(range) (C10), armed wherever the harness runs.

    Plain wrappers are used instead of icontract decorators: same effect (entry/exit checks on the
    real functions, evaluation counters), no third-party install needed in setup_cmd."""
    if _installed.get("contracts"):
        return
    from amaranth.hdl import _ast
    COUNTERS.setdefault("contract_const", 0)
    COUNTERS.setdefault("contract_shape_cast_range", 0)
    try:
        C = _ast.Const
        orig_init = C.__init__
        orig_cast = _ast.Shape.cast
    except AttributeError as e:
        raise MissingTarget(str(e))
    import enum as _enum
    import operator

    def __init__(self, value, shape=None, **kw):
        orig_init(self, value, shape, **kw)
        COUNTERS["contract_const"] += 1
        try:
            v = value.value if isinstance(value, _enum.Enum) else value
            v = int(operator.index(v))
            sh = self._shape
            ok = fits(self._value, sh.width, sh.signed) and (self._value - v) % (1 << sh.width) == 0
        except Exception:
            return
        if not ok and len(VIOLATIONS) < 20:
            VIOLATIONS.append({"mechanism": "contract:const-not-normalised",
                               "detail": {"value": v, "shape": repr(self._shape), "stored": self._value}})

    def cast(obj, *, src_loc_at=0):
        r = orig_cast(obj, src_loc_at=src_loc_at + 1)
        if isinstance(obj, range):
            COUNTERS["contract_shape_cast_range"] += 1
            exp = range_shape(obj)
            if (r.width, r.signed) != exp and len(VIOLATIONS) < 20:
                VIOLATIONS.append({"mechanism": "contract:range-shape-not-minimal",
                                   "detail": {"range": repr(obj), "cast": repr(r), "expected": list(exp)}})
        return r

    C.__init__ = __init__
    _ast.Shape.cast = staticmethod(cast)
    _installed["contracts"] = True


def range_shape(r):
    """Definitional: narrowest shape holding every element; signed iff some element negative;
    empty and {0} give width 0."""
    if not r:  # (bool(range) works for ranges longer than sys.maxsize, len() does not)
        return (0, False)
    lo, hi = min(r[0], r[-1]), max(r[0], r[-1])
    if lo == hi == 0:
        return (0, False)
    signed = lo < 0
    w = 0
    while not (fits(lo, w, signed) and fits(hi, w, signed)):
        w += 1
    return (w, signed)
