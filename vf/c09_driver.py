"""Child process of the C09 check: rebuild designs from their IR and print digests of their RTLIL.
Usage: python -m vf.c09_driver <designs.json>   ->  JSON list of [sha256(emit_src=False), sha256(rebuilt and converted again), sha256(emit_src=True), port names,
sha256 of three conversions of one design object (the third after creating a Simulator on it)]"""
import hashlib
import json
import sys


def main():
    from vf.common import setup_repo_path
    setup_repo_path()
    from vf.checks import c09
    designs = json.load(open(sys.argv[1]))
    out = []
    for d in designs:
        try:
            t1 = c09.convert_design(d, emit_src=False)
            t2 = c09.convert_design(d, emit_src=False)
            t3 = c09.convert_design(d, emit_src=True)
            h = lambda t: hashlib.sha256(t.encode()).hexdigest()
            # the same design object elaborated again, and once more after a simulator was created on it
            from amaranth.back import rtlil
            from amaranth.sim import Simulator
            top, outs = c09.build_conv(d)
            s1 = rtlil.convert(top, ports=outs, emit_src=False)
            again = []
            for with_sim in (False, True):
                try:
                    if with_sim:
                        Simulator(top)
                    again.append(h(rtlil.convert(top, ports=outs, emit_src=False)))
                except Exception as e:
                    again.append("EXC:" + type(e).__name__ + ":" + str(e)[:100])
            ports = [ln.split()[-1] for ln in t1.splitlines() if ln.strip().startswith("wire") and (" input " in ln or " output " in ln)][:40]
            out.append([h(t1), h(t2), h(t3), ports, h(s1)] + again)
        except Exception as e:
            out.append(["EXC:" + type(e).__name__ + ":" + str(e)[:100]] * 3 + [[]] + ["EXC"] * 3)
    print(json.dumps(out))


if __name__ == "__main__":
    main()
