"""Child process of the C09 check: rebuild designs from their IR and print digests of their RTLIL.
Usage: python -m vf.c09_driver <designs.json>   ->  JSON list of [sha256(emit_src=False), sha256(second conversion), sha256(emit_src=True)]"""
import hashlib
import json
import sys


def main():
    from vf.common import setup_repo_path
    setup_repo_path()
    from vf.checks import c09
    designs = json.load(open(sys.argv[1]))
    out = []
    for d in designs:
        try:
            t1 = c09.convert_design(d, emit_src=False)
            t2 = c09.convert_design(d, emit_src=False)
            t3 = c09.convert_design(d, emit_src=True)
            h = lambda t: hashlib.sha256(t.encode()).hexdigest()
            ports = [ln.split()[-1] for ln in t1.splitlines() if ln.strip().startswith("wire") and (" input " in ln or " output " in ln)][:40]
            out.append([h(t1), h(t2), h(t3), ports])
        except Exception as e:
            out.append(["EXC:" + type(e).__name__ + ":" + str(e)[:100]] * 3 + [[]])
    print(json.dumps(out))


if __name__ == "__main__":
    main()
