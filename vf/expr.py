"""Expression IR, reference semantics (exprref), builder to real Amaranth values, and generators.

IR nodes are JSON-able lists: [op, *args].  Leaves:
    ["sig", i]                 leaf signal i of the environment (shape from env)
    ["const", v]               Const(v)            (minimal shape)
    ["constsh", v, w, s]       Const(v, Shape(w, s))
Operators (user-level, interpreted from *this* IR, never from Amaranth's rewritten AST):
    unary   : neg inv abs bool any all xorr as_signed as_unsigned pos
    binary  : add sub mul floordiv mod and or xor eq ne lt le gt ge shl shr
    const   : ["shift_left",a,n] ["shift_right",a,n] ["rotate_left",a,n] ["rotate_right",a,n]
              ["index",a,i] ["slice",a,start,stop,step] ["replicate",a,n]
              ["bit_select_c",a,off,w] ["word_select_c",a,off,w]
    dynamic : ["bit_select",a,off,w] ["word_select",a,off,w]
    nary    : ["cat", [parts]] ["matches", a, [patterns]] ["mux", sel, a, b]
              ["array", [elems], idx]     (idx unsigned and always < len(elems))
"""
from .common import mask, norm, fits, ext_bit, unify, bits_of

UNARY = ["neg", "inv", "abs", "bool", "any", "all", "xorr", "as_signed", "as_unsigned", "pos"]
BINARY = ["add", "sub", "mul", "floordiv", "mod", "and", "or", "xor",
          "eq", "ne", "lt", "le", "gt", "ge", "shl", "shr"]
CONSTARG = ["shift_left", "shift_right", "rotate_left", "rotate_right", "index", "slice",
            "replicate", "bit_select_c", "word_select_c"]
DYNAMIC = ["bit_select", "word_select"]
NARY = ["cat", "matches", "mux", "array"]


def _alias(ir):
    """['pyint', v] is a bare Python integer operand (reflected operators) and ['array_raw', ...] an
    ArrayProxy used directly (not value-cast): semantically identical to const / array."""
    if ir[0] == "pyint":
        return ["const", ir[1]]
    if ir[0] == "pybool":
        return ["constsh", int(ir[1]), 1, False]
    if ir[0] == "pyenum":
        w, sg, members = PYENUMS[ir[1]][1:]
        return ["constsh", members[ir[2]], w, sg]
    if ir[0] == "array_raw":
        return ["array", ir[1], ir[2]]
    return ir


# Enumeration members used directly as operands: (kind, width, signed, members); the member is cast with the
# shape of its class (the narrowest shape holding every member, or the declared one).
PYENUMS = [("IntEnum", 3, False, {"A": 1, "B": 5}), ("IntEnum", 2, True, {"N": -2, "P": 1}),
           ("amaranth", 4, False, {"X": 3, "Y": 9}), ("amaranth", 3, True, {"M": -4, "Q": 2}), ("Enum", 2, False, {"U": 0, "V": 3})]
_ENUM_CLASSES = {}


def pyenum_member(idx, name):
    if idx not in _ENUM_CLASSES:
        import enum
        from amaranth.hdl import Shape
        from amaranth.lib import enum as aenum
        kind, w, sg, members = PYENUMS[idx]
        if kind == "IntEnum":
            _ENUM_CLASSES[idx] = enum.IntEnum(f"IE{idx}", members)
        elif kind == "Enum":
            _ENUM_CLASSES[idx] = enum.Enum(f"PE{idx}", members)
        else:
            meta = type(aenum.Enum)
            ns = meta.__prepare__(f"AE{idx}", (aenum.Enum,), shape=Shape(w, sg))
            for k, v in members.items():
                ns[k] = v
            _ENUM_CLASSES[idx] = meta(f"AE{idx}", (aenum.Enum,), ns, shape=Shape(w, sg))
    return _ENUM_CLASSES[idx][name]


class IllFormed(Exception):
    """The IR node is outside the legal grammar (generator must avoid / discard it)."""


def const_shape(v):
    # documented: minimal width, Const(0) is unsigned(1)... bits_for(0) == 1
    if v < 0:
        return ((~v).bit_length() + 1, True)
    return (max(v.bit_length(), 1), False)


# ----------------------------------------------------------------------------------------------
# Reference: documented shape
# ----------------------------------------------------------------------------------------------

def ref_shape(ir, env):
    """Documented shape (w, signed) of the expression. env: list of (w, signed) of leaf signals."""
    ir = _alias(ir)
    op = ir[0]
    if op == "sig":
        return tuple(env[ir[1]])
    if op == "const":
        return const_shape(ir[1])
    if op == "constsh":
        return (ir[2], bool(ir[3]))
    if op in UNARY:
        w, s = ref_shape(ir[1], env)
        if op in ("inv", "pos"):
            return (w, s)
        if op == "neg":
            return (w + 1, True)
        if op == "abs":
            return (w, False)
        if op in ("bool", "any", "all", "xorr"):
            return (1, False)
        if op == "as_unsigned":
            return (w, False)
        if op == "as_signed":
            if w == 0:
                raise IllFormed("as_signed of zero width")
            return (w, True)
    if op in BINARY:
        a = ref_shape(ir[1], env)
        b = ref_shape(ir[2], env)
        if op == "add":
            w, s = unify([a, b])
            return (w + 1, s)
        if op == "sub":
            w, s = unify([a, b])
            return (w + 1, True)
        if op == "mul":
            return (a[0] + b[0], a[1] or b[1])
        if op == "floordiv":
            return (a[0] + (1 if b[1] else 0), a[1] or b[1])
        if op == "mod":
            return b
        if op in ("and", "or", "xor"):
            return unify([a, b])
        if op in ("eq", "ne", "lt", "le", "gt", "ge"):
            return (1, False)
        if op == "shl":
            if b[1]:
                raise IllFormed("signed shift amount")
            return (a[0] + 2 ** b[0] - 1, a[1])
        if op == "shr":
            if b[1]:
                raise IllFormed("signed shift amount")
            return a
    if op in ("shift_left", "shift_right"):
        w, s = ref_shape(ir[1], env)
        n = ir[2] if op == "shift_left" else -ir[2]
        return (max(w + n, 1 if s else 0), s)
    if op in ("rotate_left", "rotate_right"):
        w, s = ref_shape(ir[1], env)
        return (w, False)
    if op == "index":
        w, s = ref_shape(ir[1], env)
        if ir[2] not in range(-w, w):
            raise IllFormed("index out of range")
        return (1, False)
    if op == "slice":
        w, s = ref_shape(ir[1], env)
        st, sp, step = slice(ir[2], ir[3], ir[4]).indices(w)
        if step == 1 and st > sp:
            # Amaranth deliberately rejects contiguous slices with start > stop (IndexError)
            raise IllFormed("slice start > stop")
        return (len(range(st, sp, step)), False)
    if op == "replicate":
        w, s = ref_shape(ir[1], env)
        return (w * ir[2], False)
    if op in ("bit_select_c", "word_select_c"):
        ref_shape(ir[1], env)
        return (ir[3], False)
    if op in ("bit_select", "word_select"):
        ref_shape(ir[1], env)
        if op == "word_select" and ir[3] == 0:
            raise IllFormed("word_select of width 0 is rejected (stride must be positive)")
        o = ref_shape(ir[2], env)
        if o[1]:
            raise IllFormed("signed offset")
        return (ir[3], False)
    if op == "cat":
        return (sum(ref_shape(p, env)[0] for p in ir[1]), False)
    if op == "matches":
        ref_shape(ir[1], env)
        return (1, False)
    if op == "mux":
        ref_shape(ir[1], env)
        return unify([ref_shape(ir[2], env), ref_shape(ir[3], env)])
    if op == "array":
        i = ref_shape(ir[2], env)
        if i[1] or (1 << i[0]) > len(ir[1]):
            raise IllFormed("array index may go out of range")
        # the reference does not state a shape for array proxies; the implementation's stated
        # intent is "identical to an equivalent mux tree", i.e. over the reachable elements
        return unify([ref_shape(e, env) for e in ir[1][:1 << i[0]]])
    raise IllFormed(f"unknown op {op}")


# ----------------------------------------------------------------------------------------------
# Reference: exact value
# ----------------------------------------------------------------------------------------------

def _select(v, w, s, off, n):
    """bits [off, off+n) of a value of shape (w,s); above the MSB reads 0 / sign."""
    r = 0
    for i in range(n):
        r |= ext_bit(v, w, s, off + i) << i
    return r


def pattern_matches(pat, v, w, s):
    if isinstance(pat, str):
        p = "".join(pat.split())
        if len(p) != w:
            raise IllFormed("pattern width")
        bits = bits_of(v, w)
        for i, c in enumerate(reversed(p)):
            if c == "-":
                continue
            if ((bits >> i) & 1) != int(c):
                return False
        return True
    # integer pattern: equal as integers (unrepresentable ones never match; documented warning)
    return int(pat) == v


def ref_eval(ir, env, vals):
    """Exact integer value of the expression (always within ref_shape)."""
    ir = _alias(ir)
    op = ir[0]
    if op == "sig":
        return vals[ir[1]]
    if op == "const":
        return ir[1]
    if op == "constsh":
        return norm(ir[1], ir[2], ir[3])
    if op in UNARY:
        a = ref_eval(ir[1], env, vals)
        w, s = ref_shape(ir[1], env)
        if op == "pos":
            return a
        if op == "neg":
            return -a
        if op == "inv":
            # documented deviation: complement within the operand's shape
            return ~a if s else (~a & mask(w))
        if op == "abs":
            return abs(a)
        if op in ("bool", "any"):
            return int(a != 0)
        if op == "all":
            return int(bits_of(a, w) == mask(w))
        if op == "xorr":
            return bin(bits_of(a, w)).count("1") & 1
        if op == "as_unsigned":
            return bits_of(a, w)
        if op == "as_signed":
            return norm(a, w, True)
    if op in BINARY:
        a = ref_eval(ir[1], env, vals)
        b = ref_eval(ir[2], env, vals)
        if op == "add": return a + b
        if op == "sub": return a - b
        if op == "mul": return a * b
        if op == "floordiv": return 0 if b == 0 else a // b
        if op == "mod": return 0 if b == 0 else a % b
        if op == "and": return a & b
        if op == "or": return a | b
        if op == "xor": return a ^ b
        if op == "eq": return int(a == b)
        if op == "ne": return int(a != b)
        if op == "lt": return int(a < b)
        if op == "le": return int(a <= b)
        if op == "gt": return int(a > b)
        if op == "ge": return int(a >= b)
        if op == "shl": return a << b
        if op == "shr": return a >> b
    if op in ("shift_left", "shift_right"):
        a = ref_eval(ir[1], env, vals)
        n = ir[2] if op == "shift_left" else -ir[2]
        return a << n if n >= 0 else a >> (-n)
    if op in ("rotate_left", "rotate_right"):
        a = ref_eval(ir[1], env, vals)
        w, s = ref_shape(ir[1], env)
        if w == 0:
            return 0
        n = ir[2] if op == "rotate_left" else -ir[2]
        n %= w
        b = bits_of(a, w)
        return ((b << n) | (b >> (w - n))) & mask(w)
    if op == "index":
        a = ref_eval(ir[1], env, vals)
        w, s = ref_shape(ir[1], env)
        i = ir[2] + w if ir[2] < 0 else ir[2]
        return (a >> i) & 1
    if op == "slice":
        a = ref_eval(ir[1], env, vals)
        w, s = ref_shape(ir[1], env)
        r = 0
        for k, i in enumerate(range(*slice(ir[2], ir[3], ir[4]).indices(w))):
            r |= ((a >> i) & 1) << k
        return r
    if op == "replicate":
        a = ref_eval(ir[1], env, vals)
        w, s = ref_shape(ir[1], env)
        b = bits_of(a, w)
        r = 0
        for k in range(ir[2]):
            r |= b << (k * w)
        return r
    if op in ("bit_select_c", "word_select_c", "bit_select", "word_select"):
        a = ref_eval(ir[1], env, vals)
        w, s = ref_shape(ir[1], env)
        off = ir[2] if op.endswith("_c") else ref_eval(ir[2], env, vals)
        if op.startswith("word"):
            off *= ir[3]
        return _select(a, w, s, off, ir[3])
    if op == "cat":
        r = 0
        pos = 0
        for p in ir[1]:
            w, s = ref_shape(p, env)
            r |= bits_of(ref_eval(p, env, vals), w) << pos
            pos += w
        return r
    if op == "matches":
        a = ref_eval(ir[1], env, vals)
        w, s = ref_shape(ir[1], env)
        return int(any(pattern_matches(p, a, w, s) for p in ir[2]))
    if op == "mux":
        sel = ref_eval(ir[1], env, vals)
        return ref_eval(ir[2], env, vals) if sel != 0 else ref_eval(ir[3], env, vals)
    if op == "array":
        i = ref_eval(ir[2], env, vals)
        return ref_eval(ir[1][i], env, vals)
    raise IllFormed(f"unknown op {op}")


# ----------------------------------------------------------------------------------------------
# Builder: IR -> real Amaranth value through the public API only
# ----------------------------------------------------------------------------------------------

def build(ir, sigs):
    from amaranth.hdl import Const, Shape, Cat, Mux, Array, Value
    op = ir[0]
    if op == "sig":
        return sigs[ir[1]]
    if op == "const":
        return Const(ir[1])
    if op == "pyint":
        return ir[1]                 # a bare Python integer (exercises the reflected operators)
    if op == "pybool":
        return bool(ir[1])
    if op == "pyenum":
        return pyenum_member(ir[1], ir[2])
    if op == "constsh":
        return Const(ir[1], Shape(ir[2], bool(ir[3])))
    B = lambda x: build(x, sigs)
    if op in UNARY:
        a = B(ir[1])
        if op == "neg": return -a
        if op == "inv": return ~a
        if op == "abs": return abs(a)
        if op == "bool": return a.bool()
        if op == "any": return a.any()
        if op == "all": return a.all()
        if op == "xorr": return a.xor()
        if op == "as_signed": return a.as_signed()
        if op == "as_unsigned": return a.as_unsigned()
        if op == "pos": return +a
    if op in BINARY:
        a = B(ir[1]); b = B(ir[2])
        if op == "add": return a + b
        if op == "sub": return a - b
        if op == "mul": return a * b
        if op == "floordiv": return a // b
        if op == "mod": return a % b
        if op == "and": return a & b
        if op == "or": return a | b
        if op == "xor": return a ^ b
        if op == "eq": return a == b
        if op == "ne": return a != b
        if op == "lt": return a < b
        if op == "le": return a <= b
        if op == "gt": return a > b
        if op == "ge": return a >= b
        if op == "shl": return a << b
        if op == "shr": return a >> b
    if op == "shift_left": return B(ir[1]).shift_left(ir[2])
    if op == "shift_right": return B(ir[1]).shift_right(ir[2])
    if op == "rotate_left": return B(ir[1]).rotate_left(ir[2])
    if op == "rotate_right": return B(ir[1]).rotate_right(ir[2])
    if op == "index": return B(ir[1])[ir[2]]
    if op == "slice": return B(ir[1])[ir[2]:ir[3]:ir[4]]
    if op == "replicate": return B(ir[1]).replicate(ir[2])
    if op == "bit_select_c": return B(ir[1]).bit_select(ir[2], ir[3])
    if op == "word_select_c": return B(ir[1]).word_select(ir[2], ir[3])
    if op == "bit_select": return B(ir[1]).bit_select(B(ir[2]), ir[3])
    if op == "word_select": return B(ir[1]).word_select(B(ir[2]), ir[3])
    if op == "cat": return Cat(*[B(p) for p in ir[1]])
    if op == "matches": return B(ir[1]).matches(*ir[2])
    if op == "mux": return Mux(B(ir[1]), B(ir[2]), B(ir[3]))
    if op == "array": return Value.cast(Array([B(e) for e in ir[1]])[B(ir[2])])
    if op == "array_raw": return Array([B(e) for e in ir[1]])[B(ir[2])]     # the proxy itself
    raise IllFormed(f"unknown op {op}")


# ----------------------------------------------------------------------------------------------
# Structure helpers
# ----------------------------------------------------------------------------------------------

def children(ir):
    ir = _alias(ir)
    op = ir[0]
    if op in ("sig", "const", "constsh"):
        return []
    if op in UNARY or op in CONSTARG:
        return [ir[1]]
    if op in BINARY or op in DYNAMIC:
        return [ir[1], ir[2]]
    if op == "cat":
        return list(ir[1])
    if op == "matches":
        return [ir[1]]
    if op == "mux":
        return [ir[1], ir[2], ir[3]]
    if op == "array":
        return list(ir[1]) + [ir[2]]
    return []


def depth(ir):
    ch = children(ir)
    return 0 if not ch else 1 + max(depth(c) for c in ch)


def ops_in(ir, acc=None):
    if acc is None:
        acc = []
    if ir[0] not in ("sig", "const", "constsh"):
        acc.append(ir[0])
    for c in children(ir):
        ops_in(c, acc)
    return acc


def has_signal(ir):
    return ir[0] == "sig" or any(has_signal(c) for c in children(ir))


def fingerprint(ir, env):
    """Structure with constant *values* abstracted, leaf shapes kept."""
    ir = _alias(ir)
    op = ir[0]
    if op == "sig":
        return ["sig", list(env[ir[1]])]
    if op == "const":
        return ["const", list(const_shape(ir[1]))]
    if op == "constsh":
        return ["constsh", ir[2], ir[3]]
    if op in UNARY:
        return [op, fingerprint(ir[1], env)]
    if op in BINARY:
        return [op, fingerprint(ir[1], env), fingerprint(ir[2], env)]
    if op in CONSTARG:
        return [op, fingerprint(ir[1], env)] + list(ir[2:])
    if op in DYNAMIC:
        return [op, fingerprint(ir[1], env), fingerprint(ir[2], env), ir[3]]
    if op == "cat":
        return [op, [fingerprint(p, env) for p in ir[1]]]
    if op == "matches":
        return [op, fingerprint(ir[1], env), [("s" if isinstance(p, str) else "i") for p in ir[2]]]
    if op == "mux":
        return [op] + [fingerprint(x, env) for x in ir[1:4]]
    if op == "array":
        return [op, [fingerprint(e, env) for e in ir[1]], fingerprint(ir[2], env)]
    return [op]


UNNORMALISED_PRODUCERS = ("inv", "as_signed", "as_unsigned", "neg", "sub", "add", "mul", "shl")


def consumes_unnormalised(ir):
    """True if some operator consumes an operand produced by ~ / as_signed / as_unsigned etc."""
    for c in children(ir):
        if c[0] in ("inv", "as_signed", "as_unsigned"):
            return True
        if consumes_unnormalised(c):
            return True
    return False


# ----------------------------------------------------------------------------------------------
# Generators
# ----------------------------------------------------------------------------------------------

MAX_WIDTH = 160


def gen_leaf(rng, env, want_unsigned=False, max_w=None):
    for _ in range(20):
        k = rng.random()
        if k < 0.7 and env:
            i = rng.randrange(len(env))
            w, s = env[i]
            if want_unsigned and s:
                continue
            if max_w is not None and w > max_w:
                continue
            return ["sig", i]
        if k < 0.85:
            v = rng.choice([0, 1, 2, 3, 5, 7, 8, 15, 16, 255, -1, -2, -3, -8, -128])
            if want_unsigned and v < 0:
                continue
            if max_w is not None and const_shape(v)[0] > max_w:
                continue
            return ["const", v]
        w = rng.choice([0, 1, 1, 2, 3, 4, 8])
        s = rng.random() < 0.4 and w > 0 and not want_unsigned
        if max_w is not None and w > max_w:
            continue
        return ["constsh", rng.randrange(-(1 << w), (1 << w) + 1), w, s]
    return ["constsh", 0, 1, False]


def gen_pattern_list(rng, w, s):
    pats = []
    for _ in range(rng.choice([0, 1, 1, 2, 3])):
        k = rng.random()
        if k < 0.5:
            p = "".join(rng.choice("01-") for _ in range(w))
            if rng.random() < 0.3 and w > 1:
                i = rng.randrange(1, w)
                p = p[:i] + rng.choice([" ", "\t", "  "]) + p[i:]
            pats.append(p)
        else:
            lo, hi = (-(1 << (w - 1)) if w else 0, (1 << (w - 1)) if w else 1) if s else (0, 1 << w)
            if rng.random() < 0.15:
                pats.append(rng.choice([hi, hi + 1, lo - 1]))  # unrepresentable: never matches
            else:
                pats.append(rng.randrange(lo, hi))
    return pats


def gen_expr(rng, env, d, want_unsigned=False, max_w=None):
    """Random legal expression of depth <= d. want_unsigned: result must be unsigned.
    max_w: result width must not exceed max_w (used for shift amounts / offsets)."""
    for _attempt in range(60):
        if d <= 0 or rng.random() < 0.12:
            return gen_leaf(rng, env, want_unsigned, max_w)
        try:
            ir = _gen_node(rng, env, d)
            w, s = ref_shape(ir, env)
        except IllFormed:
            continue
        if want_unsigned and s:
            if w > 0 and rng.random() < 0.5:
                ir = ["as_unsigned", ir]
                s = False
            else:
                continue
        if max_w is not None and w > max_w:
            if rng.random() < 0.7:
                ir = ["slice", ir, 0, max_w, None]
                w, s = max_w, False
            else:
                continue
        if w > MAX_WIDTH:
            continue
        return ir
    return gen_leaf(rng, env, want_unsigned, max_w)


def _gen_node(rng, env, d):
    G = lambda **kw: gen_expr(rng, env, d - 1, **kw)
    cls = rng.random()
    if cls < 0.22:
        return [rng.choice(UNARY), G()]
    if cls < 0.55:
        op = rng.choice(BINARY)
        if op in ("shl",):
            return [op, G(), G(want_unsigned=True, max_w=3)]
        if op == "shr":
            return [op, G(), G(want_unsigned=True, max_w=6)]
        return [op, G(), G()]
    if cls < 0.75:
        op = rng.choice(CONSTARG)
        a = G()
        w, s = ref_shape(a, env)
        if op in ("shift_left", "shift_right"):
            return [op, a, rng.choice([0, 1, 2, 3, w, w + 1, -1, -2])]
        if op in ("rotate_left", "rotate_right"):
            return [op, a, rng.choice([0, 1, 2, w - 1, w, w + 1, -1, -w - 2, 2 * w + 1])]
        if op == "index":
            if w == 0:
                raise IllFormed("index of empty")
            return [op, a, rng.randrange(-w, w)]
        if op == "slice":
            c = lambda: rng.choice([None, 0, 1, 2, w // 2, w - 1, w, w + 2, -1, -2, -w, -w - 1])
            step = rng.choice([None, None, None, 1, 2, 3, -1, -2])
            return [op, a, c(), c(), step]
        if op == "replicate":
            return [op, a, rng.choice([0, 1, 2, 3])]
        if op == "bit_select_c":
            return [op, a, rng.choice([0, 1, w // 2, max(w - 1, 0), w, w + 1, w + 3]),
                    rng.choice([0, 1, 2, 3, w, w + 1])]
        if op == "word_select_c":
            ww = rng.choice([1, 2, 3, max(w // 2, 1)])
            return [op, a, rng.choice([0, 1, 2, w // ww, w // ww + 1]), ww]
    if cls < 0.85:
        op = rng.choice(DYNAMIC)
        a = G()
        off = G(want_unsigned=True, max_w=4)
        return [op, a, off, rng.choice([0, 1, 1, 2, 3, 4, 5])]
    k = rng.choice(NARY)
    if k == "cat":
        return ["cat", [G() for _ in range(rng.choice([0, 1, 2, 2, 3, 4]))]]
    if k == "matches":
        a = G()
        w, s = ref_shape(a, env)
        return ["matches", a, gen_pattern_list(rng, w, s)]
    if k == "mux":
        return ["mux", G(), G(), G()]
    if k == "array":
        idx = G(want_unsigned=True, max_w=2)
        iw, _ = ref_shape(idx, env)
        n = (1 << iw) + rng.choice([0, 0, 1, 2])
        return ["array", [G() for _ in range(n)], idx]
    raise IllFormed("unreachable")
