"""Statement / module IR with reference interpreter (stmtref), builder and generator (C02, C04, C20).

Module spec (JSON-able dict):
  inputs : [[w, s], ...]                 undriven signals set by the testbench
  comb   : [[w, s, init], ...]           combinationally driven signals
  sync   : [[w, s, init, reset_less], ...]  registers of domain "sync"
  fsms   : [{"states": [names], "init": name|None, "mention": [names order for ongoing()]}]
  stmts  : program-ordered statement list
Leaf environment (env) order: inputs, comb, sync, then one 1-bit "ongoing" leaf per (fsm, state).

Statements:
  ["assign", dom, target, expr]          dom in {"comb","sync"}
  ["if", [[cond, [stmts]], ...], else_stmts|None]
  ["switch", test, [[patterns|None, [stmts]], ...]]     patterns None = Default
  ["fsm", k, [[state, [stmts]], ...]]
  ["next", k, state]
  ["print", dom, fmt_chunks]  /  ["assert", dom, cond, kind]     (used by C20 only)
"""
from . import expr as X
from . import target as T
from .common import norm


class Spec:
    def __init__(self, d):
        self.d = d
        self.inputs = [tuple(x) for x in d["inputs"]]
        self.comb = [tuple(x) for x in d["comb"]]
        self.sync = [tuple(x) for x in d["sync"]]
        self.fsms = d.get("fsms", [])
        self.stmts = d["stmts"]
        self.ni, self.nc, self.ns = len(self.inputs), len(self.comb), len(self.sync)
        self.env = [x[:2] for x in self.inputs] + [x[:2] for x in self.comb] + [x[:2] for x in self.sync]
        self.ongoing_index = {}
        for k, f in enumerate(self.fsms):
            for st in f["states"]:
                self.ongoing_index[(k, st)] = len(self.env)
                self.env.append((1, False))

    def comb_range(self):
        return range(self.ni, self.ni + self.nc)

    def sync_range(self):
        return range(self.ni + self.nc, self.ni + self.nc + self.ns)

    def init_vals(self):
        v = [0] * len(self.env)
        for i, x in enumerate(self.comb):
            v[self.ni + i] = norm(x[2], x[0], x[1])
        for i, x in enumerate(self.sync):
            v[self.ni + self.nc + i] = norm(x[2], x[0], x[1])
        return v

    def fsm_init(self, k):
        f = self.fsms[k]
        if not f["states"]:
            return None
        return f["init"] if f["init"] is not None else f["states"][0]


# ------------------------------------------------------------------------------------------------
# Reference interpreter
# ------------------------------------------------------------------------------------------------

class RefState:
    def __init__(self, spec):
        self.spec = spec
        self.vals = spec.init_vals()
        self.fsm = [spec.fsm_init(k) for k in range(len(spec.fsms))]
        self.settle()

    def _set_ongoing(self):
        for (k, st), idx in self.spec.ongoing_index.items():
            self.vals[idx] = int(self.fsm[k] == st)

    def set_inputs(self, ivals):
        for i, v in enumerate(ivals):
            self.vals[i] = v
        self.settle()

    def settle(self):
        sp = self.spec
        self._set_ongoing()
        for _ in range(sp.nc + 3):
            nxt = list(self.vals)
            for i in sp.comb_range():
                nxt[i] = norm(sp.comb[i - sp.ni][2], *sp.env[i])
            _exec(sp, sp.stmts, "comb", self.vals, nxt, self.fsm, None, [])
            if nxt == self.vals:
                return
            self.vals = nxt
        raise AssertionError("reference: combinational logic did not settle (generator produced a cycle)")

    def clock_edge(self, rst=0):
        """Active edge of 'sync'. Returns the list of side effects (prints/asserts) in order."""
        sp = self.spec
        nxt = list(self.vals)
        nfsm = list(self.fsm)
        effects = []
        _exec(sp, sp.stmts, "sync", self.vals, nxt, self.fsm, nfsm, effects)
        if rst:
            for i in sp.sync_range():
                w, s, init, rl = sp.sync[i - sp.ni - sp.nc]
                if not rl:
                    nxt[i] = norm(init, w, s)
            nfsm = [sp.fsm_init(k) for k in range(len(sp.fsms))]
        self.vals = nxt
        self.fsm = nfsm
        self.settle()
        return effects


def _cond_true(c, sp, vals):
    return X.ref_eval(c, sp.env, vals) != 0


def switch_select(test, cases, sp, vals):
    """Index of the first case whose pattern list matches (None pattern list = default)."""
    tv = X.ref_eval(test, sp.env, vals)
    w, s = X.ref_shape(test, sp.env)
    for k, (pats, body) in enumerate(cases):
        if pats is None:
            return k
        for p in pats:
            if X.pattern_matches(p, tv, w, s):
                return k
    return None


def _exec(sp, stmts, dom, vals, nxt, fsm, nfsm, effects):
    for st in stmts:
        op = st[0]
        if op == "assign":
            if st[1] != dom:
                continue
            v = X.ref_eval(st[3], sp.env, vals)
            bits = T.resolve(st[2], sp.env, vals)
            for k, dst in enumerate(bits):
                if dst is None:
                    continue
                i, b = dst
                w, s = sp.env[i]
                raw = nxt[i] & ((1 << w) - 1)
                raw = (raw & ~(1 << b)) | (((v >> k) & 1) << b)
                nxt[i] = norm(raw, w, s)
        elif op == "if":
            chosen = None
            for cond, body in st[1]:
                if _cond_true(cond, sp, vals):
                    chosen = body
                    break
            if chosen is None:
                chosen = st[2]
            if chosen is not None:
                _exec(sp, chosen, dom, vals, nxt, fsm, nfsm, effects)
        elif op == "switch":
            k = switch_select(st[1], st[2], sp, vals)
            if k is not None:
                _exec(sp, st[2][k][1], dom, vals, nxt, fsm, nfsm, effects)
        elif op == "fsm":
            for name, body in st[2]:
                if fsm[st[1]] == name:
                    _exec(sp, body, dom, vals, nxt, fsm, nfsm, effects)
                    break
        elif op == "next":
            if dom == "sync" and nfsm is not None:
                nfsm[st[1]] = st[2]
        elif op in ("print", "assert"):
            if st[1] == dom:
                effects.append((st, list(vals)))
        else:
            raise X.IllFormed(op)


# ------------------------------------------------------------------------------------------------
# Builder
# ------------------------------------------------------------------------------------------------

class Built:
    pass


_STATE_ENUMS = {}


def state_object(spec, k, name):
    """The object that names state `name` of FSM k in the real design: the string itself, its index as a Python
    int (so one state is called 0), or a member of an IntEnum (whose first member has the value 0)."""
    f = spec.fsms[k]
    kind = f.get("names", "str")
    if kind == "str":
        return name
    idx = f["states"].index(name)
    order = f.get("name_values") or list(range(len(f["states"])))
    if kind == "int":
        return order[idx]
    key = (tuple(f["states"]), tuple(order))
    if key not in _STATE_ENUMS:
        import enum
        _STATE_ENUMS[key] = enum.IntEnum("St", {n: v for n, v in zip(f["states"], order)})
    return _STATE_ENUMS[key][name]


def make_sync_domain(negedge=False):
    """The "sync" domain of a generated program; when it is clocked on the falling edge its clock signal idles
    at 1 from time 0 on, so that hand-pulsed harnesses can speak of "the active edge" for either polarity."""
    from amaranth.hdl import ClockDomain, Signal
    cd = ClockDomain("sync", clk_edge="neg" if negedge else "pos")
    if negedge:
        cd.clk = Signal(name="clk", init=1)
    return cd


def build_module(spec, m=None, domain_obj=None, extra=None):
    """Build the real Module through the public DSL. Returns Built with .m, .sigs (env order),
    .cd (the sync ClockDomain), .fsm_objs."""
    from amaranth.hdl import Module, Signal, Shape, ClockDomain
    b = Built()
    b.m = m = m or Module()
    if domain_obj is None:
        domain_obj = make_sync_domain(spec.d.get("negedge", False))
        m.domains.sync = domain_obj
    b.cd = domain_obj
    b.idle = 1 if domain_obj.clk_edge == "neg" else 0      # clock level between edges
    b.act = 1 - b.idle                                      # clock level right after the active edge
    sigs = []
    for k, (w, s) in enumerate(spec.inputs):
        sigs.append(Signal(Shape(w, s), name=f"i{k}"))
    for k, (w, s, init) in enumerate(spec.comb):
        sigs.append(Signal(Shape(w, s), name=f"c{k}", init=norm(init, w, s)))
    for k, (w, s, init, rl) in enumerate(spec.sync):
        sigs.append(Signal(Shape(w, s), name=f"r{k}", init=norm(init, w, s), reset_less=bool(rl)))
    # placeholders for ongoing leaves; filled when the FSM is entered
    sigs.extend([None] * (len(spec.env) - len(sigs)))
    b.sigs = sigs
    b.fsm_objs = {}
    b.extra = extra
    _build_stmts(spec, b, spec.stmts)
    return b


def _build_stmts(spec, b, stmts):
    m = b.m
    for st in stmts:
        op = st[0]
        if op == "assign":
            lhs = T.build(st[2], b.sigs)
            rhs = X.build(st[3], b.sigs)
            m.d[st[1]] += lhs.eq(rhs)
        elif op == "if":
            for n, (cond, body) in enumerate(st[1]):
                c = X.build(cond, b.sigs)
                with (m.If(c) if n == 0 else m.Elif(c)):
                    _build_stmts(spec, b, body)
            if st[2] is not None:
                with m.Else():
                    _build_stmts(spec, b, st[2])
        elif op == "switch":
            with m.Switch(X.build(st[1], b.sigs)):
                for pats, body in st[2]:
                    if pats is None:
                        with m.Default():
                            _build_stmts(spec, b, body)
                    else:
                        with m.Case(*pats):
                            _build_stmts(spec, b, body)
        elif op == "fsm":
            k = st[1]
            f = spec.fsms[k]
            kw = {}
            if f["init"] is not None:
                kw["init"] = state_object(spec, k, f["init"])
            with m.FSM(name=f"fsm{k}", **kw) as fsm:
                b.fsm_objs[k] = fsm
                for name in f.get("mention") or f["states"]:
                    b.sigs[spec.ongoing_index[(k, name)]] = fsm.ongoing(state_object(spec, k, name))
                for name, body in st[2]:
                    with m.State(state_object(spec, k, name)):
                        _build_stmts(spec, b, body)
        elif op == "next":
            m.next = state_object(spec, st[1], st[2])
        elif op in ("print", "assert"):
            b.extra(spec, b, st)
        else:
            raise X.IllFormed(op)


# ------------------------------------------------------------------------------------------------
# Generator
# ------------------------------------------------------------------------------------------------

class Gen:
    def __init__(self, rng, max_nest=3, max_stmts=12, allow_fsm=True, expr_depth=2, dup_cat=False):
        self.rng = rng
        self.max_nest = max_nest
        self.max_stmts = max_stmts
        self.allow_fsm = allow_fsm
        self.expr_depth = expr_depth
        self.count = 0

    def spec(self):
        rng = self.rng
        ni = rng.randint(2, 6)
        nc = rng.randint(1, 5)
        ns = rng.randint(1, 4)
        def shp(maxw=8):
            w = rng.choice([0, 1, 1, 2, 3, 4, 5, 8][:maxw + 1])
            return [w, bool(w > 0 and rng.random() < 0.35)]
        inputs = [shp() for _ in range(ni)]
        inputs[0] = [rng.choice([1, 2, 3]), False]     # an offset/index friendly input
        comb = [shp() + [rng.choice([0, 0, 1, 3, -1, 5])] for _ in range(nc)]
        sync = [shp() + [rng.choice([0, 0, 1, 2, -1, 7]), rng.random() < 0.2] for _ in range(ns)]
        nf = rng.choice([0, 0, 1, 1, 2]) if self.allow_fsm else 0
        fsms = []
        for k in range(nf):
            n = rng.randint(1, 5)
            states = [f"S{j}" for j in range(n)]
            init = rng.choice([None, None, rng.choice(states)])
            mention = list(states)
            if rng.random() < 0.5:
                rng.shuffle(mention)
            fsm = {"states": states, "init": init, "mention": mention}
            if rng.random() < 0.35:
                # states named by Python ints or IntEnum members; the value 0 need not belong to the first state
                fsm["names"] = rng.choice(["int", "intenum"])
                vals = list(range(n))
                rng.shuffle(vals)
                fsm["name_values"] = vals
            fsms.append(fsm)
        d = {"inputs": inputs, "comb": comb, "sync": sync, "fsms": fsms, "stmts": []}
        sp = Spec(d)
        self.sp = sp
        self.fsm_defined = set()      # fsms whose definition point has been passed
        self.fsm_used = set()
        self.count = 0
        d["stmts"] = self.block(0, lower=0, in_fsm=None)
        # make sure every FSM is instantiated exactly once (at top level if not yet)
        for k in range(nf):
            if k not in self.fsm_used:
                d["stmts"].append(self.fsm_stmt(k, 0, lower=0))
        return Spec(d)

    # readable leaves given the comb lower bound L (comb targets < L may be read by comb logic)
    def readable(self, lower):
        sp = self.sp
        r = list(range(sp.ni)) + list(range(sp.ni, sp.ni + lower)) + list(sp.sync_range())
        for (k, st), idx in sp.ongoing_index.items():
            if k in self.fsm_defined:
                r.append(idx)
        return r

    def expr(self, readable, depth=None, **kw):
        sp = self.sp
        sub_env = [sp.env[i] for i in readable]
        e = X.gen_expr(self.rng, sub_env, self.expr_depth if depth is None else depth, **kw)
        return _remap(e, readable)

    def max_comb_read(self, e):
        sp = self.sp
        m = -1
        for i in _leaves(e):
            if sp.ni <= i < sp.ni + sp.nc:
                m = max(m, i - sp.ni)
        return m

    def block(self, nest, lower, in_fsm):
        rng = self.rng
        out = []
        n = rng.randint(1, 4)
        for _ in range(n):
            if self.count >= self.max_stmts:
                break
            out.extend(self.stmt(nest, lower, in_fsm))
        return out

    def stmt(self, nest, lower, in_fsm):
        rng = self.rng
        sp = self.sp
        self.count += 1
        k = rng.random()
        if nest >= self.max_nest or k < 0.45:
            return [self.assign(lower)] + ([self.next_stmt(in_fsm)] if in_fsm is not None and rng.random() < 0.5 else [])
        if k < 0.70:
            arms = []
            L = lower
            for _ in range(rng.choice([1, 1, 2, 3])):
                c = self.expr(self.readable(L), depth=rng.choice([0, 1, 2]))
                L = max(L, self.max_comb_read(c) + 1)
                arms.append([c, None])
            for a in arms:
                a[1] = self.block(nest + 1, L, in_fsm)
            els = self.block(nest + 1, L, in_fsm) if rng.random() < 0.5 else None
            return [["if", arms, els]]
        if k < 0.92 or not self.allow_fsm:
            test = self.expr(self.readable(lower), depth=rng.choice([0, 0, 1, 2]))
            L = max(lower, self.max_comb_read(test) + 1)
            w, s = X.ref_shape(test, sp.env)
            cases = []
            got_default = False
            for _ in range(rng.choice([0, 1, 2, 3, 4])):
                if rng.random() < 0.15:
                    pats = None
                    got_default = True
                else:
                    pats = X.gen_pattern_list(rng, w, s)
                cases.append([pats, self.block(nest + 1, L, in_fsm)])
            if rng.random() < 0.4 and not got_default:
                cases.append([None, self.block(nest + 1, L, in_fsm)])
            return [["switch", test, cases]]
        cand = [f for f in range(len(sp.fsms)) if f not in self.fsm_used]
        if not cand or (in_fsm is not None and rng.random() < 0.5):
            return [self.assign(lower)]
        # (inside a State of another FSM this makes a nested FSM: its m.next binds to the innermost one)
        return [self.fsm_stmt(cand[0], nest, lower)]

    def fsm_stmt(self, k, nest, lower):
        sp = self.sp
        self.fsm_used.add(k)
        self.fsm_defined.add(k)
        bodies = []
        for name in sp.fsms[k]["states"]:
            body = self.block(nest + 1, lower, in_fsm=k)
            cand = [f for f in range(len(sp.fsms)) if f not in self.fsm_used]
            if cand and nest + 1 < self.max_nest + 1 and self.rng.random() < 0.4:
                # an FSM nested in this State (usually with state names the outer FSM has too)
                body.insert(self.rng.randrange(len(body) + 1), self.fsm_stmt(cand[0], nest + 1, lower))
            if self.rng.random() < 0.6:
                body.append(self.next_stmt(k))
            bodies.append([name, body])
        return ["fsm", k, bodies]

    def next_stmt(self, k):
        return ["next", k, self.rng.choice(self.sp.fsms[k]["states"])]

    def assign(self, lower):
        rng = self.rng
        sp = self.sp
        if rng.random() < 0.5 and lower < sp.nc:
            # comb assignment to targets >= lower; may read comb < min target
            tg = sorted(rng.sample(range(lower, sp.nc), rng.choice([1, 1, 2]) if sp.nc - lower >= 2 else 1))
            rd = self.readable(min(tg))
            targets = [sp.ni + t for t in tg]
            dom = "comb"
        else:
            targets = list(sp.sync_range())
            rd = self.readable(sp.nc)
            dom = "sync"
        t = self.target(targets, rd)
        e = self.expr(rd)
        return ["assign", dom, t, e]

    def target(self, targets, readable):
        """Assignable target over `targets`; offsets read only `readable` unsigned small signals.
        No signal occurs twice inside one Cat (known finding F14 is probed separately)."""
        rng = self.rng
        sp = self.sp
        for _ in range(30):
            sub = list(targets)
            offs = [i for i in readable if not sp.env[i][1] and sp.env[i][0] <= 3]
            envmap = sub + offs
            sub_env = [sp.env[i] for i in envmap]
            t = T.gen_target(rng, sub_env, rng.choice([0, 0, 1, 1, 2, 3]), targets=list(range(len(sub))),
                             offsets=list(range(len(sub), len(envmap))))
            t = _remap_target(t, envmap)
            if _dup_in_cat(t):
                continue
            try:
                T.t_shape(t, sp.env)
            except X.IllFormed:
                continue
            return t
        return ["sig", targets[0]]


def _leaves(e):
    if e[0] == "sig":
        yield e[1]
    for c in X.children(e):
        yield from _leaves(c)


def _remap(e, mp):
    op = e[0]
    if op == "sig":
        return ["sig", mp[e[1]]]
    if op in ("const", "constsh"):
        return e
    if op in X.UNARY:
        return [op, _remap(e[1], mp)]
    if op in X.BINARY:
        return [op, _remap(e[1], mp), _remap(e[2], mp)]
    if op in X.CONSTARG:
        return [op, _remap(e[1], mp)] + list(e[2:])
    if op in X.DYNAMIC:
        return [op, _remap(e[1], mp), _remap(e[2], mp), e[3]]
    if op == "cat":
        return [op, [_remap(p, mp) for p in e[1]]]
    if op == "matches":
        return [op, _remap(e[1], mp), e[2]]
    if op == "mux":
        return [op] + [_remap(x, mp) for x in e[1:4]]
    if op == "array":
        return [op, [_remap(x, mp) for x in e[1]], _remap(e[2], mp)]
    raise X.IllFormed(op)


def _remap_target(t, mp):
    op = t[0]
    if op == "sig":
        return ["sig", mp[t[1]]]
    if op == "slice":
        return ["slice", _remap_target(t[1], mp), t[2], t[3]]
    if op == "cat":
        return ["cat", [_remap_target(p, mp) for p in t[1]]]
    if op == "part":
        return ["part", _remap_target(t[1], mp), _remap(t[2], mp), t[3], t[4], t[5]]
    if op == "array":
        return ["array", [_remap_target(p, mp) for p in t[1]], _remap(t[2], mp)]
    return [op, _remap_target(t[1], mp)]


def _dup_in_cat(t):
    from .findings import _has_dup_cat
    return _has_dup_cat(t)


def stmt_kinds(stmts, acc=None, nest=0):
    if acc is None:
        acc = {"max_nest": 0}
    acc["max_nest"] = max(acc["max_nest"], nest)
    for st in stmts:
        op = st[0]
        acc[op] = acc.get(op, 0) + 1
        if op == "assign":
            acc["assign:" + st[1]] = acc.get("assign:" + st[1], 0) + 1
            for f in set(T.forms(st[2])):
                acc["target:" + f] = acc.get("target:" + f, 0) + 1
        elif op == "if":
            if len(st[1]) > 1:
                acc["elif"] = acc.get("elif", 0) + 1
            if st[2] is not None:
                acc["else"] = acc.get("else", 0) + 1
            for c, body in st[1]:
                stmt_kinds(body, acc, nest + 1)
            if st[2]:
                stmt_kinds(st[2], acc, nest + 1)
        elif op == "switch":
            for pats, body in st[2]:
                if pats is None:
                    acc["default"] = acc.get("default", 0) + 1
                elif not pats:
                    acc["empty-case"] = acc.get("empty-case", 0) + 1
                else:
                    if len(pats) > 1:
                        acc["multi-pattern"] = acc.get("multi-pattern", 0) + 1
                    for p in pats:
                        kk = "pattern:str" if isinstance(p, str) else "pattern:int"
                        acc[kk] = acc.get(kk, 0) + 1
                stmt_kinds(body, acc, nest + 1)
        elif op == "fsm":
            for name, body in st[2]:
                sub = stmt_kinds(body, None, 0)
                if sub.get("fsm"):
                    acc["nested-fsm"] = acc.get("nested-fsm", 0) + sub["fsm"]
                stmt_kinds(body, acc, nest + 1)
    return acc


def skeleton(stmts):
    """Structural fingerprint: statement kinds and nesting, targets' forms, values abstracted."""
    out = []
    for st in stmts:
        op = st[0]
        if op == "assign":
            out.append(["a", st[1], sorted(set(T.forms(st[2]))), X.ops_in(st[3])[:4]])
        elif op == "if":
            out.append(["if", [skeleton(b) for c, b in st[1]], skeleton(st[2]) if st[2] else None])
        elif op == "switch":
            out.append(["sw", [[None if p is None else len(p), skeleton(b)] for p, b in st[2]]])
        elif op == "fsm":
            out.append(["fsm", [skeleton(b) for n, b in st[2]]])
        else:
            out.append([op])
    return out
