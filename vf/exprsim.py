"""Shared harness for C01 / C05(read side): evaluate batches of IR expressions three ways.

For every expression e of a group (sharing leaf signals):
  * circuit : o = Signal(e.shape()); m.d.comb += o.eq(e);  ctx.get(o)
  * read    : ctx.get(e)                       (testbench evaluator, C05 read side)
  * ref     : exprref on the IR                (documented semantics)
and Value.shape() against the documented shape.
"""
import itertools

from . import expr as X
from . import instrument
from .common import fits, value_range, corner_values, exc_origin


def pack(env, vals):
    r = 0
    pos = 0
    for (w, s), v in zip(env, vals):
        r |= (v & ((1 << w) - 1)) << pos
        pos += w
    return r


def all_valuations(env):
    return itertools.product(*[value_range(w, s) for (w, s) in env])


def sample_valuations(env, rng, n):
    per = [corner_values(w, s, rng, extra=3) for (w, s) in env]
    out = []
    seen = set()
    # a few pure-corner vectors first
    for pick in (0, -1):
        v = tuple(p[pick] for p in per)
        if v not in seen:
            seen.add(v)
            out.append(v)
    tries = 0
    while len(out) < n and tries < 4 * n:
        tries += 1
        v = tuple(rng.choice(p) for p in per)
        if v not in seen:
            seen.add(v)
            out.append(v)
    return out


def run_group(env, exprs, valuations, want_read=True, max_viol=8):
    """-> dict(evaluations, violations[list], built[int])"""
    from amaranth.hdl import Signal, Module, Shape, Cat
    from amaranth.sim import Simulator

    res = {"evaluations": 0, "violations": [], "built": 0, "visited_ops": {}}
    sigs = [Signal(Shape(w, s), name=f"i{k}") for k, (w, s) in enumerate(env)]
    m = Module()
    items = []
    for e in exprs:
        try:
            rshape = X.ref_shape(e, env)
        except X.IllFormed:
            continue
        try:
            v = X.build(e, sigs)
            sh = v.shape()
        except Exception as ex:
            if exc_origin(ex) == "repo":
                res["violations"].append({"mechanism": f"build-exception:{type(ex).__name__}:{e[0]}",
                                          "detail": {"env": env, "expr": e, "exception": repr(ex)}})
            else:
                raise
            continue
        if (sh.width, sh.signed) != tuple(rshape):
            res["violations"].append({
                "mechanism": f"shape-mismatch:{e[0]}",
                "detail": {"env": env, "expr": e, "documented_shape": list(rshape),
                           "reported_shape": [sh.width, sh.signed]}})
        o = Signal(sh, name=f"o{len(items)}")
        m.d.comb += o.eq(v)
        items.append((e, v, o, rshape, (sh.width, sh.signed)))
    if not items:
        return res
    res["built"] = len(items)
    try:
        sim = Simulator(m)
    except Exception as ex:
        if len(exprs) > 1:
            # isolate the offending expression
            for e in exprs:
                r = run_group(env, [e], valuations, want_read, max_viol)
                res["evaluations"] += r["evaluations"]
                res["violations"].extend(r["violations"])
            return res
        res["violations"].append({"mechanism": f"simulator-exception:{type(ex).__name__}:{exprs[0][0]}",
                                  "detail": {"env": env, "expr": exprs[0], "exception": repr(ex)}})
        return res

    valuations = list(valuations)
    inputs = Cat(*sigs)
    nbits = sum(w for w, s in env)
    viol = res["violations"]
    flagged = set()

    async def tb(ctx):
        for vals in valuations:
            if nbits:
                ctx.set(inputs, pack(env, vals))
            for k, (e, v, o, rshape, oshape) in enumerate(items):
                res["evaluations"] += 1
                exact = X.ref_eval(e, env, vals)
                if not fits(exact, *rshape):
                    # the documentation table itself would be wrong: oracle fault, not a verdict
                    raise AssertionError(f"oracle: exact result {exact} of {e} does not fit documented {rshape}")
                got = ctx.get(o)
                # compare modulo representation in the *reported* shape; a wrong reported shape
                # is already flagged above, here the value in the circuit is the observable
                if got != exact and (k, "c") not in flagged:
                    flagged.add((k, "c"))
                    if len(viol) < max_viol:
                        viol.append({"mechanism": f"circuit-value-mismatch:{e[0]}",
                                     "detail": {"env": env, "expr": e, "vals": list(vals),
                                                "documented": exact, "circuit": got,
                                                "reported_shape": list(oshape)}})
                if want_read:
                    try:
                        rd = ctx.get(v)
                    except Exception as ex:
                        rd = f"exception {type(ex).__name__}: {ex}"
                        if exc_origin(ex) != "repo":
                            raise
                    # the read value is normalised into the expression's shape for comparison
                    # (ctx.get returns the evaluator's integer; a circuit holds it in o's shape)
                    if rd != got and (k, "r") not in flagged:
                        flagged.add((k, "r"))
                        if len(viol) < max_viol:
                            viol.append({"mechanism": f"read-vs-circuit-mismatch:{e[0]}",
                                         "detail": {"env": env, "expr": e, "vals": list(vals),
                                                    "documented": exact, "circuit": got,
                                                    "ctx_get": rd}})

    sim.add_testbench(tb)
    sim.run()
    viol.extend(instrument.VIOLATIONS)
    instrument.VIOLATIONS.clear()
    return res
