"""Word-level functions of the Yosys internal cells that Amaranth emits (our reading of the
published cell library: techlibs/common/simlib.v, kernel/calc.cc), on Python integers.

A value is a triple (v, x, w): w bits, v the defined bits, x a mask of undefined bits (v & x == 0).
Where published sources disagree or leave a result undefined the function returns all-x and the
comparison is skipped by the caller (see DESIGN.md 2.4).
"""


def mask(w):
    return (1 << w) - 1


def ext(val, w_from, w_to, signed):
    """Extend (v, x) from w_from to w_to bits (or truncate)."""
    v, x = val
    if w_to <= w_from:
        return v & mask(w_to), x & mask(w_to)
    if signed and w_from > 0:
        top = 1 << (w_from - 1)
        hi = mask(w_to) & ~mask(w_from)
        if x & top:
            x |= hi
        elif v & top:
            v |= hi
    return v, x


def to_signed(v, w):
    if w and v >> (w - 1) & 1:
        return v - (1 << w)
    return v


ALLX = lambda w: (0, mask(w))


def unary(op, a, aw, a_signed, yw):
    if op == "$not":
        v, x = ext(a, aw, yw, a_signed)
        return (~v & mask(yw) & ~x, x)
    if op == "$neg":
        v, x = ext(a, aw, yw, a_signed)
        if x:
            return ALLX(yw)
        return ((-v) & mask(yw), 0)
    if op.startswith("$reduce_") or op == "$logic_not":
        v, x = a
        v &= mask(aw)
        x &= mask(aw)
        if op in ("$reduce_or", "$reduce_bool"):
            if v:
                r = 1
            elif x:
                return ext((0, 1), 1, yw, False) if yw else (0, 0)
            else:
                r = 0
        elif op == "$reduce_and":
            if (v | x) != mask(aw):
                r = 0
            elif x:
                return ext((0, 1), 1, yw, False) if yw else (0, 0)
            else:
                r = 1
        elif op == "$reduce_xor":
            if x:
                return ext((0, 1), 1, yw, False) if yw else (0, 0)
            r = bin(v).count("1") & 1
        else:
            raise KeyError(op)
        return (r & mask(yw), 0)
    raise KeyError(op)


def binary(op, a, aw, a_signed, b, bw, b_signed, yw):
    if op in ("$and", "$or", "$xor"):
        s = a_signed and b_signed
        av, ax = ext(a, aw, yw, s)
        bv, bx = ext(b, bw, yw, s)
        if op == "$and":
            zero = (~av & ~ax) | (~bv & ~bx)          # a defined 0 on either side forces 0
            x = (ax | bx) & ~zero
            return ((av & bv) & ~x & mask(yw), x & mask(yw))
        if op == "$or":
            one = av | bv
            x = (ax | bx) & ~one
            return ((av | bv) & ~x & mask(yw), x & mask(yw))
        x = ax | bx
        return ((av ^ bv) & ~x & mask(yw), x & mask(yw))
    if op in ("$add", "$sub", "$mul"):
        s = a_signed and b_signed
        av, ax = ext(a, aw, yw, s)
        bv, bx = ext(b, bw, yw, s)
        if ax or bx:
            return ALLX(yw)
        r = {"$add": av + bv, "$sub": av - bv, "$mul": av * bv}[op]
        return (r & mask(yw), 0)
    if op in ("$eq", "$ne", "$lt", "$le", "$gt", "$ge"):
        s = a_signed and b_signed
        w = max(aw, bw)
        av, ax = ext(a, aw, w, s)
        bv, bx = ext(b, bw, w, s)
        if ax or bx:
            if op in ("$eq", "$ne") and ((av ^ bv) & ~(ax | bx)):
                r = 0 if op == "$eq" else 1       # a defined differing bit decides
                return (r & mask(yw), 0)
            return (0, 1 & mask(yw))
        if s:
            av, bv = to_signed(av, w), to_signed(bv, w)
        r = {"$eq": av == bv, "$ne": av != bv, "$lt": av < bv, "$le": av <= bv,
             "$gt": av > bv, "$ge": av >= bv}[op]
        return (int(r) & mask(yw), 0)
    if op in ("$shl", "$shr", "$sshr"):
        bv, bx = b
        if bx or a[1]:
            return ALLX(yw)
        bv &= mask(bw)
        if op == "$shl":
            av, _ = ext(a, aw, yw, a_signed)
            if bv > yw:
                return (0, 0)
            return ((av << bv) & mask(yw), 0)
        w = max(aw, yw)
        av, _ = ext(a, aw, w, a_signed)
        if op == "$shr" or not a_signed:
            return ((av >> bv) & mask(yw), 0) if bv < w + 1 else (0, 0)
        sv = to_signed(av, w)
        return ((sv >> min(bv, w + 1)) & mask(yw), 0)
    if op == "$shift":
        # B unsigned (as emitted): Y[i] = A[i + B]; beyond A: 0 if unsigned; contested (undef) if signed
        bv, bx = b
        if bx:
            return ALLX(yw)
        bv &= mask(bw)
        av, ax = a
        rv = rx = 0
        for i in range(yw):
            j = i + bv
            if j < aw:
                rv |= ((av >> j) & 1) << i
                rx |= ((ax >> j) & 1) << i
            elif a_signed:
                rx |= 1 << i
        return (rv & ~rx, rx)
    if op in ("$divfloor", "$modfloor"):
        s = a_signed and b_signed
        w = max(aw, bw, yw)
        av, ax = ext(a, aw, w, s)
        bv, bx = ext(b, bw, w, s)
        if ax or bx or bv == 0:
            return ALLX(yw)
        if s:
            av, bv = to_signed(av, w), to_signed(bv, w)
        r = av // bv if op == "$divfloor" else av % bv
        return (r & mask(yw), 0)
    raise KeyError(op)


def mux(a, b, s, w):
    sv, sx = s
    if sx & 1:
        av, ax = a
        bv, bx = b
        same = ~(av ^ bv) & ~ax & ~bx & mask(w)
        return (av & same, mask(w) & ~same)
    return b if sv & 1 else a


def selftest():
    """Exhaustive comparison with Python integer arithmetic for widths <= 3 (defined inputs)."""
    n = 0
    for aw in range(0, 4):
        for bw in range(0, 4):
            for a in range(1 << aw):
                for b in range(1 << bw):
                    for s in (False, True):
                        sa = to_signed(a, aw) if s else a
                        sb = to_signed(b, bw) if s else b
                        for yw in (1, 3, 5):
                            m = mask(yw)
                            assert binary("$add", (a, 0), aw, s, (b, 0), bw, s, yw) == ((sa + sb) & m, 0)
                            assert binary("$sub", (a, 0), aw, s, (b, 0), bw, s, yw) == ((sa - sb) & m, 0)
                            assert binary("$mul", (a, 0), aw, s, (b, 0), bw, s, yw) == ((sa * sb) & m, 0)
                            assert binary("$and", (a, 0), aw, s, (b, 0), bw, s, yw) == ((sa & sb) & m, 0)
                            assert binary("$or", (a, 0), aw, s, (b, 0), bw, s, yw) == ((sa | sb) & m, 0)
                            assert binary("$xor", (a, 0), aw, s, (b, 0), bw, s, yw) == ((sa ^ sb) & m, 0)
                            assert binary("$lt", (a, 0), aw, s, (b, 0), bw, s, yw) == (int(sa < sb), 0)
                            assert binary("$ge", (a, 0), aw, s, (b, 0), bw, s, yw) == (int(sa >= sb), 0)
                            assert binary("$eq", (a, 0), aw, s, (b, 0), bw, s, yw) == (int(sa == sb), 0)
                            if sb != 0:
                                assert binary("$divfloor", (a, 0), aw, s, (b, 0), bw, s, yw) == ((sa // sb) & m, 0)
                                assert binary("$modfloor", (a, 0), aw, s, (b, 0), bw, s, yw) == ((sa % sb) & m, 0)
                            n += 11
                        # shifts: B unsigned
                        for yw in (aw, aw + 2):
                            m = mask(yw)
                            assert binary("$shl", (a, 0), aw, s, (b, 0), bw, False, yw) == ((sa << b) & m, 0)
                            assert binary("$sshr", (a, 0), aw, s, (b, 0), bw, False, yw) == ((sa >> b) & m, 0), (a, aw, s, b, yw)
                            assert binary("$shr", (a, 0), aw, False, (b, 0), bw, False, yw) == ((a >> b) & m, 0)
                            sh = binary("$shift", (a, 0), aw, False, (b, 0), bw, False, yw)
                            assert sh == ((a >> b) & m, 0)
                            n += 4
            for a in range(1 << aw):
                for s in (False, True):
                    sa = to_signed(a, aw) if s else a
                    for yw in (1, 3, 5):
                        assert unary("$not", (a, 0), aw, s, yw) == (~sa & mask(yw), 0)
                        assert unary("$neg", (a, 0), aw, s, yw) == (-sa & mask(yw), 0)
                        n += 2
                assert unary("$reduce_or", (a, 0), aw, False, 1) == (int(a != 0), 0)
                assert unary("$reduce_and", (a, 0), aw, False, 1) == (int(a == mask(aw)), 0)
                assert unary("$reduce_xor", (a, 0), aw, False, 1) == (bin(a).count("1") & 1, 0)
    return f"{n} cell evaluations agree with Python integer arithmetic (widths <= 3)"
