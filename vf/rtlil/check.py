"""Structural well-formedness of a parsed RTLIL document (C07).

check(doc, foreign=None) -> list of (rule, message).  `foreign` optionally maps a foreign cell type
to {port: 'i'|'o'|'io'} (known from the IR that produced the design); without it, bits connected to
a foreign cell are assumed driven by it only when they have no other driver.
"""
from .parse import Const

UNARY = {"$not", "$neg", "$reduce_and", "$reduce_or", "$reduce_xor", "$reduce_bool"}
BINARY = {"$and", "$or", "$xor", "$add", "$sub", "$mul", "$eq", "$ne", "$lt", "$le", "$gt", "$ge",
          "$shl", "$shr", "$sshr", "$shift", "$divfloor", "$modfloor"}

# cell type -> (parameters, {port: ('i'|'o', width expression)})
def _spec(cell, ip):
    t = cell.type
    if t in UNARY:
        return ({"A_SIGNED", "A_WIDTH", "Y_WIDTH"}, {"A": ("i", ip("A_WIDTH")), "Y": ("o", ip("Y_WIDTH"))})
    if t in BINARY:
        return ({"A_SIGNED", "B_SIGNED", "A_WIDTH", "B_WIDTH", "Y_WIDTH"},
                {"A": ("i", ip("A_WIDTH")), "B": ("i", ip("B_WIDTH")), "Y": ("o", ip("Y_WIDTH"))})
    if t == "$mux":
        w = ip("WIDTH")
        return ({"WIDTH"}, {"A": ("i", w), "B": ("i", w), "S": ("i", 1), "Y": ("o", w)})
    if t == "$tribuf":
        w = ip("WIDTH")
        return ({"WIDTH"}, {"A": ("i", w), "EN": ("i", 1), "Y": ("io", w)})
    if t == "$dff":
        w = ip("WIDTH")
        return ({"WIDTH", "CLK_POLARITY"}, {"D": ("i", w), "CLK": ("i", 1), "Q": ("o", w)})
    if t == "$adff":
        w = ip("WIDTH")
        return ({"WIDTH", "CLK_POLARITY", "ARST_POLARITY", "ARST_VALUE"},
                {"D": ("i", w), "CLK": ("i", 1), "ARST": ("i", 1), "Q": ("o", w)})
    if t == "$meminit_v2":
        w, words, ab = ip("WIDTH"), ip("WORDS"), ip("ABITS")
        return ({"MEMID", "ABITS", "WIDTH", "WORDS", "PRIORITY"},
                {"ADDR": ("i", ab), "DATA": ("i", None if w is None or words is None else w * words), "EN": ("i", w)})
    if t == "$memwr_v2":
        w, ab = ip("WIDTH"), ip("ABITS")
        return ({"MEMID", "ABITS", "WIDTH", "CLK_ENABLE", "CLK_POLARITY", "PORTID", "PRIORITY_MASK"},
                {"ADDR": ("i", ab), "DATA": ("i", w), "EN": ("i", w), "CLK": ("i", 1)})
    if t == "$memrd_v2":
        w, ab = ip("WIDTH"), ip("ABITS")
        return ({"MEMID", "ABITS", "WIDTH", "TRANSPARENCY_MASK", "COLLISION_X_MASK", "ARST_VALUE", "SRST_VALUE",
                 "INIT_VALUE", "CE_OVER_SRST", "CLK_ENABLE", "CLK_POLARITY"},
                {"ADDR": ("i", ab), "DATA": ("o", w), "ARST": ("i", 1), "SRST": ("i", 1), "EN": ("i", 1), "CLK": ("i", 1)})
    if t == "$print":
        return ({"FORMAT", "ARGS_WIDTH", "PRIORITY", "TRG_ENABLE", "TRG_WIDTH", "TRG_POLARITY"},
                {"EN": ("i", 1), "ARGS": ("i", ip("ARGS_WIDTH")), "TRG": ("i", ip("TRG_WIDTH"))})
    if t == "$check":
        return ({"FORMAT", "ARGS_WIDTH", "PRIORITY", "TRG_ENABLE", "TRG_WIDTH", "TRG_POLARITY", "FLAVOR"},
                {"EN": ("i", 1), "ARGS": ("i", ip("ARGS_WIDTH")), "TRG": ("i", ip("TRG_WIDTH")), "A": ("i", 1)})
    if t in ("$anyconst", "$anyseq"):
        return ({"WIDTH"}, {"Y": ("o", ip("WIDTH"))})
    if t == "$initstate":
        return (set(), {"Y": ("o", 1)})
    return None


def check(doc, foreign=None, io_wires=()):
    errs = []
    foreign = foreign or {}

    def E(rule, msg):
        if len(errs) < 200:
            errs.append((rule, msg))
    tops = [m for m in doc.modules.values() if "top" in m.attrs]
    if len(tops) != 1:
        E("top", f"{len(tops)} modules carry the top attribute")
    used_modules = set()
    for m in doc.modules.values():
        mn = m.name
        # names unique within the module across object kinds
        seen = set()
        for nm in m.names:
            if nm in seen:
                E("unique-names", f"{mn}: name {nm} declared twice")
            seen.add(nm)
        # ports: ids unique and dense from 0
        ports = [w for w in m.wires.values() if w.port_kind]
        ids = sorted(w.port_id for w in ports)
        if ids != list(range(len(ids))):
            E("port-ids", f"{mn}: port indices {ids} are not unique and dense from 0")
        drivers = {}      # (wire, bit) -> count
        inout_bits = set()
        for w in m.wires.values():
            if w.port_kind == "inout":
                for k in range(w.width):
                    inout_bits.add((w.name, k))

        def chk_bits(bits, where):
            for b in bits:
                if b[0] == "w":
                    w = m.wires.get(b[1])
                    if w is None:
                        E("unknown-wire", f"{mn}: {where} refers to undeclared wire {b[1]}")
                        return False
                    if b[2] is None or not (0 <= b[2] < w.width):
                        E("slice-bounds", f"{mn}: {where} selects bit {b[2]} of {b[1]} (width {w.width})")
                        return False
            return True

        def drive(bits, where):
            for b in bits:
                if b[0] == "c":
                    E("drives-constant", f"{mn}: {where} drives a constant")
                elif b[0] == "w":
                    drivers[(b[1], b[2])] = drivers.get((b[1], b[2]), 0) + 1
        for (lhs, rhs, ln) in m.connects:
            where = f"connect at line {ln}"
            ok = chk_bits(lhs, where) & chk_bits(rhs, where)
            if len(lhs) != len(rhs):
                E("width-mismatch", f"{mn}: {where} has {len(lhs)} bits on the left and {len(rhs)} on the right")
            if ok:
                drive(lhs, where)
        for c in m.cells.values():
            where = f"cell {c.name} ({c.type})"
            for pname, bits in c.conns.items():
                chk_bits(bits, f"{where} port {pname}")

            def ip(name):
                p = c.params.get(name)
                if p is None:
                    return None
                try:
                    return p[1].as_int()
                except Exception:
                    return None
            if c.type.startswith("$"):
                sp = _spec(c, ip)
                if sp is None:
                    E("unknown-cell", f"{mn}: {where} is not a cell type of the emitted subset")
                    continue
                params, cports = sp
                if set(c.params) != params:
                    E("cell-parameters", f"{mn}: {where} has parameters {sorted(c.params)}, expected {sorted(params)}")
                if set(c.conns) != set(cports):
                    E("cell-ports", f"{mn}: {where} connects {sorted(c.conns)}, expected {sorted(cports)}")
                for pname, (d, w) in cports.items():
                    bits = c.conns.get(pname)
                    if bits is None:
                        continue
                    if w is not None and len(bits) != w:
                        E("cell-port-width", f"{mn}: {where} port {pname} is {len(bits)} bits, parameters say {w}")
                    if d == "o":
                        drive(bits, f"{where} port {pname}")
                    elif d == "io":
                        for b in bits:
                            if b[0] == "w" and (b[1], b[2]) not in inout_bits:
                                drive([b], f"{where} port {pname}")
                if c.type in ("$meminit_v2", "$memwr_v2", "$memrd_v2"):
                    mid = c.params.get("MEMID")
                    if mid is None or mid[1].kind != "str" or mid[1].value not in m.memories:
                        E("unknown-memory", f"{mn}: {where} refers to memory {mid[1].value if mid else None!r}")
                    else:
                        me = m.memories[mid[1].value]
                        if ip("WIDTH") != me.width:
                            E("memory-width", f"{mn}: {where} WIDTH {ip('WIDTH')} != memory width {me.width}")
            elif c.type in doc.modules:
                used_modules.add(c.type)
                sub = doc.modules[c.type]
                sports = {w.name[1:]: w for w in sub.wires.values() if w.port_kind}
                if set(c.conns) != set(sports):
                    E("submodule-ports", f"{mn}: {where} connects {sorted(c.conns)} but the module declares {sorted(sports)}")
                for pname, bits in c.conns.items():
                    w = sports.get(pname)
                    if w is None:
                        continue
                    if len(bits) != w.width:
                        E("submodule-port-width", f"{mn}: {where} port {pname} is {len(bits)} bits, declared {w.width}")
                    if w.port_kind == "output":
                        drive(bits, f"{where} port {pname}")
                    elif w.port_kind == "inout":
                        for b in bits:
                            if b[0] == "w" and (b[1], b[2]) not in inout_bits:
                                E("inout-to-non-inout", f"{mn}: {where} inout port {pname} is connected to a plain wire bit {b[1]}[{b[2]}]")
            else:
                if not c.type.startswith("\\"):
                    E("unknown-cell", f"{mn}: {where}")
                fdir = foreign.get(c.type[1:])
                for pname, bits in c.conns.items():
                    d = fdir.get(pname) if fdir else None
                    if d == "o":
                        drive(bits, f"{where} port {pname}")
                    elif d is None:
                        c.__dict__.setdefault("_maybe_out", []).append(bits)
        for p in m.processes.values():
            assigned = set()

            def walk(case, sel_w=None):
                for (lhs, rhs, ln) in case.assigns:
                    where = f"process {p.name} assign at line {ln}"
                    ok = chk_bits(lhs, where) & chk_bits(rhs, where)
                    if len(lhs) != len(rhs):
                        E("width-mismatch", f"{mn}: {where} has {len(lhs)} bits on the left and {len(rhs)} on the right")
                    for b in lhs:
                        if b[0] == "c":
                            E("drives-constant", f"{mn}: {where} assigns to a constant")
                        else:
                            assigned.add((b[1], b[2]))
                for sw in case.switches:
                    chk_bits(sw.sel, f"process {p.name} switch at line {sw.lineno}")
                    for cs in sw.cases:
                        for pat in cs.patterns:
                            if len(pat) != len(sw.sel):
                                E("pattern-width", f"{mn}: process {p.name} case at line {cs.lineno}: pattern of {len(pat)} bits for a {len(sw.sel)}-bit selector")
                        walk(cs)
            walk(p.root)
            root_assigned = set()
            for (lhs, rhs, ln) in p.root.assigns:
                for b in lhs:
                    if b[0] == "w":
                        root_assigned.add((b[1], b[2]))
            if assigned - root_assigned:
                E("process-latch", f"{mn}: process {p.name} assigns {len(assigned - root_assigned)} bit(s) only conditionally (no default at the root)")
            for b in assigned:
                drivers[b] = drivers.get(b, 0) + 1
        # foreign cells with unknown port directions: a bit with no other driver is taken as driven by them
        for c in m.cells.values():
            for bits in c.__dict__.pop("_maybe_out", []):
                for b in bits:
                    if b[0] == "w" and drivers.get((b[1], b[2]), 0) == 0:
                        w = m.wires.get(b[1])
                        if w is not None and w.port_kind != "input" and (b[1], b[2]) not in inout_bits:
                            drivers[(b[1], b[2])] = 1
        for w in m.wires.values():
            for k in range(w.width):
                n = drivers.get((w.name, k), 0)
                if w.port_kind == "inout":
                    continue
                if w.port_kind == "input":
                    if n:
                        E("input-driven", f"{mn}: input port bit {w.name}[{k}] is driven from inside the module")
                elif n != 1:
                    if n == 0 and w.port_kind == "output" and "top" in m.attrs and w.name in io_wires:
                        continue      # an unused bit of a partially used I/O port (a pad left unconnected)
                    E("driver-count", f"{mn}: wire bit {w.name}[{k}] has {n} drivers")
    for name in doc.modules:
        if name not in used_modules and "top" not in doc.modules[name].attrs:
            E("unused-module", f"module {name} is never instantiated")
    for m in doc.modules.values():
        for c in m.cells.values():
            if not c.type.startswith("$") and c.type not in doc.modules:
                if c.type[1:].startswith(tuple(x[1:] + "." for x in doc.modules)) or "." in c.type:
                    # looks like a dotted hierarchical module name that was dropped (e.g. as empty)
                    if foreign is not None and c.type[1:] not in foreign:
                        E("missing-module", f"{m.name}: cell {c.name} instantiates {c.type}, which is not in the document")
    return errs


def expected_const(value):
    """How a foreign-instance parameter/attribute value given to Instance() must appear: ('plain'|'signed'|'real', predicate)."""
    return value
