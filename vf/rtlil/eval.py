"""Independent evaluator of emitted RTLIL documents (two-valued plus undef), delta-cycle based.

    ev = Evaluator(parse(text))
    ev.set(name, value)          # top-level input / inout port (external value)
    ev.step()                    # settle: comb fix-point, then clock edges / async resets, repeat
    ev.get(name)  -> (value, undef_mask)           top-level wire
    ev.get_path(("top", "sub"), "sig") -> ...      wire inside the hierarchy

Semantics: see DESIGN.md appendix A.  Contested corners return undef bits.
"""
from . import cells as C
from .parse import Const


class EvalError(Exception):
    pass


class Scope:
    def __init__(self, path, module):
        self.path = path
        self.module = module
        self.wid = {}        # wire name -> global id
        self.bitmap = {}     # (wire name, bit) -> (global id, bit) for inout ports aliased to the parent's net
        self.mems = {}       # memory name -> Mem


class Mem:
    def __init__(self, width, size):
        self.width, self.size = width, size
        self.rows = [(0, C.mask(width))] * size       # undefined until $meminit
        self.wr_ports = []
        self.rd_ports = []


KNOWN_UNARY = {"$not", "$neg", "$reduce_and", "$reduce_or", "$reduce_xor", "$reduce_bool"}
KNOWN_BINARY = {"$and", "$or", "$xor", "$add", "$sub", "$mul", "$eq", "$ne", "$lt", "$le", "$gt", "$ge",
                "$shl", "$shr", "$sshr", "$shift", "$divfloor", "$modfloor"}
IGNORED = {"$print", "$check", "$anyconst", "$anyseq", "$initstate", "$scopeinfo"}


class Evaluator:
    def __init__(self, doc, top=None):
        self.doc = doc
        self.w_width = []
        self.w_val = []
        self.w_x = []
        self.w_name = []
        self.comb = []         # comb elements (closures returning True when something changed)
        self.ffs = []
        self.mem_ports = []
        self.scopes = {}
        self.ext = {}          # wire id of top-level inout -> external (v, x)
        self.cell_count = {}
        self.warnings = []
        self.undef_sources = {}      # cell type -> times it produced undef from fully defined inputs
        topm = doc.top() if top is None else doc.modules[top]
        if topm is None:
            raise EvalError("no top module")
        self.top_scope = self.instantiate(topm, (topm.name[1:],))
        self.initial()

    # ---- construction -----------------------------------------------------------------------
    def new_wire(self, name, width, init=None):
        self.w_width.append(width)
        self.w_val.append(0 if init is None else init[0])
        self.w_x.append(C.mask(width) if init is None else init[1])
        self.w_name.append(name)
        return len(self.w_width) - 1

    def chunks(self, scope, bits):
        """Resolve a bit list to chunks: ('c', v, x, w) | ('w', wid, lo, w)"""
        out = []
        for b in bits:
            if b[0] == "c":
                ch = b[1]
                v, x = (1, 0) if ch == "1" else (0, 0) if ch == "0" else (0, 1)
                if out and out[-1][0] == "c":
                    k, pv, px, pw = out[-1]
                    out[-1] = ("c", pv | (v << pw), px | (x << pw), pw + 1)
                else:
                    out.append(("c", v, x, 1))
            else:
                _, name, idx = b
                if name not in scope.wid or idx is None:
                    raise EvalError(f"reference to unknown wire {name} in {scope.path}")
                wid = scope.wid[name]
                if idx >= self.w_width[wid]:
                    raise EvalError(f"bit {idx} out of range for {name}")
                if (name, idx) in scope.bitmap:
                    wid, idx = scope.bitmap[(name, idx)]
                if out and out[-1][0] == "w" and out[-1][1] == wid and out[-1][2] + out[-1][3] == idx:
                    out[-1] = ("w", wid, out[-1][2], out[-1][3] + 1)
                else:
                    out.append(("w", wid, idx, 1))
        return out

    def read(self, ch):
        v = x = 0
        pos = 0
        for c in ch:
            if c[0] == "c":
                v |= c[1] << pos
                x |= c[2] << pos
                pos += c[3]
            else:
                _, wid, lo, w = c
                m = (1 << w) - 1
                v |= ((self.w_val[wid] >> lo) & m) << pos
                x |= ((self.w_x[wid] >> lo) & m) << pos
                pos += w
        return v, x

    @staticmethod
    def width_of(ch):
        return sum(c[3] for c in ch)

    def write(self, ch, val):
        """-> True when any target bit changed."""
        v, x = val
        changed = False
        pos = 0
        for c in ch:
            w = c[3]
            if c[0] == "w":
                _, wid, lo, _ = c
                m = ((1 << w) - 1) << lo
                nv = (self.w_val[wid] & ~m) | (((v >> pos) << lo) & m)
                nx = (self.w_x[wid] & ~m) | (((x >> pos) << lo) & m)
                nv &= ~nx
                if nv != self.w_val[wid] or nx != self.w_x[wid]:
                    self.w_val[wid], self.w_x[wid] = nv, nx
                    changed = True
            pos += w
        return changed

    def instantiate(self, module, path, bitmap=None):
        scope = Scope(path, module)
        scope.bitmap = bitmap or {}
        self.scopes[path] = scope
        for name, w in module.wires.items():
            scope.wid[name] = self.new_wire("/".join(path) + ":" + name, w.width)
        for name, me in module.memories.items():
            scope.mems[name] = Mem(me.width, me.size)
        for (lhs, rhs, ln) in module.connects:
            self.add_connect(scope, lhs, rhs)
        for cell in module.cells.values():
            self.add_cell(scope, cell)
        for proc in module.processes.values():
            self.add_process(scope, proc)
        return scope

    def add_connect(self, scope, lhs, rhs):
        l, r = self.chunks(scope, lhs), self.chunks(scope, rhs)
        self.comb.append(lambda: self.write(l, self.read(r)))

    def param(self, cell, name, default=None):
        if name not in cell.params:
            if default is not None:
                return default
            raise EvalError(f"cell {cell.name} ({cell.type}) lacks parameter {name}")
        return cell.params[name][1]

    def iparam(self, cell, name, default=None):
        p = self.param(cell, name, default)
        return p.as_int() if isinstance(p, Const) else p

    def add_cell(self, scope, cell):
        t = cell.type
        self.cell_count[t if t.startswith("$") else "submodule/instance"] = self.cell_count.get(t if t.startswith("$") else "submodule/instance", 0) + 1
        conn = {k: self.chunks(scope, v) for k, v in cell.conns.items()}
        if t in KNOWN_UNARY:
            aw, yw, asg = self.iparam(cell, "A_WIDTH"), self.iparam(cell, "Y_WIDTH"), bool(self.iparam(cell, "A_SIGNED"))
            a, y = conn["A"], conn["Y"]
            self.comb.append(lambda: self.write(y, C.unary(t, self.read(a), aw, asg, yw)))
        elif t in KNOWN_BINARY:
            aw, bw, yw = self.iparam(cell, "A_WIDTH"), self.iparam(cell, "B_WIDTH"), self.iparam(cell, "Y_WIDTH")
            asg, bsg = bool(self.iparam(cell, "A_SIGNED")), bool(self.iparam(cell, "B_SIGNED"))
            a, b, y = conn["A"], conn["B"], conn["Y"]

            def bin_():
                av, bv = self.read(a), self.read(b)
                r = C.binary(t, av, aw, asg, bv, bw, bsg, yw)
                if r[1] and not av[1] and not bv[1]:
                    self.undef_sources[t] = self.undef_sources.get(t, 0) + 1
                return self.write(y, r)
            self.comb.append(bin_)
        elif t == "$mux":
            w = self.iparam(cell, "WIDTH")
            a, b, s, y = conn["A"], conn["B"], conn["S"], conn["Y"]
            self.comb.append(lambda: self.write(y, C.mux(self.read(a), self.read(b), self.read(s), w)))
        elif t == "$tribuf":
            a, en, y = conn["A"], conn["EN"], conn["Y"]

            def tri():
                ev, ex = self.read(en)
                if ex & 1:
                    return self.write(y, (0, C.mask(self.width_of(y))))
                if ev & 1:
                    return self.write(y, self.read(a))
                # not driving: the pad shows its external value
                return self.write_external(y)
            self.comb.append(tri)
        elif t in ("$dff", "$adff"):
            w = self.iparam(cell, "WIDTH")
            q = conn["Q"]
            ff = {"d": conn["D"], "clk": conn["CLK"], "q": q, "pol": self.iparam(cell, "CLK_POLARITY"), "prev": None,
                  "arst": conn.get("ARST") if t == "$adff" else None, "w": w}
            if t == "$adff":
                ff["arst_pol"] = self.iparam(cell, "ARST_POLARITY")
                ff["arst_val"] = (self.param(cell, "ARST_VALUE").as_int() or 0, 0)
            # initial value: the init attribute of the wire on Q
            init = (0, C.mask(w))
            bits = cell.conns["Q"]
            names = {b[1] for b in bits if b[0] == "w"}
            if len(names) == 1:
                wire = scope.module.wires.get(next(iter(names)))
                if wire is not None and "init" in wire.attrs:
                    c = wire.attrs["init"]
                    iv = c.as_int()
                    if iv is not None:
                        lo = min(b[2] for b in bits)
                        init = ((iv >> lo) & C.mask(w), 0)
            ff["init"] = init
            self.ffs.append(ff)
        elif t == "$meminit_v2":
            mem = self.memory_of(scope, cell)
            width, words = self.iparam(cell, "WIDTH"), self.iparam(cell, "WORDS")
            dv, dx = self.read(conn["DATA"])
            ev, ex = self.read(conn["EN"])
            av, ax = self.read(conn["ADDR"])
            for k in range(words):
                row = ((dv >> (k * width)) & C.mask(width), (dx >> (k * width)) & C.mask(width))
                if av + k < mem.size:
                    ov, ox = mem.rows[av + k]
                    nv = (ov & ~ev) | (row[0] & ev)
                    nx = (ox & ~ev) | (row[1] & ev)
                    mem.rows[av + k] = (nv & ~nx, nx)
        elif t == "$memwr_v2":
            mem = self.memory_of(scope, cell)
            port = {"mem": mem, "addr": conn["ADDR"], "data": conn["DATA"], "en": conn["EN"], "clk": conn["CLK"],
                    "pol": self.iparam(cell, "CLK_POLARITY"), "id": self.iparam(cell, "PORTID"), "prev": None, "kind": "wr"}
            mem.wr_ports.append(port)
            self.mem_ports.append(port)
        elif t == "$memrd_v2":
            mem = self.memory_of(scope, cell)
            width = self.iparam(cell, "WIDTH")
            data = conn["DATA"]
            addr = conn["ADDR"]
            if not self.iparam(cell, "CLK_ENABLE"):
                def rd():
                    av, ax = self.read(addr)
                    if ax or av >= mem.size:
                        return self.write(data, (0, C.mask(width)))
                    return self.write(data, mem.rows[av])
                self.comb.append(rd)
            else:
                tm = self.param(cell, "TRANSPARENCY_MASK").as_int() or 0
                port = {"mem": mem, "addr": addr, "data": data, "en": conn["EN"], "clk": conn["CLK"],
                        "pol": self.iparam(cell, "CLK_POLARITY"), "trans": tm, "prev": None, "kind": "rd", "w": width}
                mem.rd_ports.append(port)
                self.mem_ports.append(port)
        elif t in IGNORED:
            for p in ("Y",):
                if p in conn:
                    pass
        elif t in self.doc.modules:
            sub = self.doc.modules[t]
            # inout ports share the parent's net bit by bit
            bitmap = {}
            for pname, ch in conn.items():
                w = sub.wires.get("\\" + pname)
                if w is not None and w.port_kind == "inout":
                    k = 0
                    for c in ch:
                        if c[0] != "w":
                            raise EvalError(f"inout port {pname} of {t} connected to a constant")
                        for j in range(c[3]):
                            bitmap[("\\" + pname, k)] = (c[1], c[2] + j)
                            k += 1
            sscope = self.instantiate(sub, scope.path + (cell.name[1:],), bitmap)
            for pname, ch in conn.items():
                w = sub.wires.get("\\" + pname)
                if w is None:
                    raise EvalError(f"cell {cell.name} connects port {pname} that module {t} does not declare")
                inner = [("w", sscope.wid["\\" + pname], 0, w.width)]
                if w.port_kind == "input":
                    self.comb.append(lambda inner=inner, ch=ch: self.write(inner, self.read(ch)))
                elif w.port_kind == "output":
                    self.comb.append(lambda inner=inner, ch=ch: self.write(ch, self.read(inner)))
                elif w.port_kind == "inout":
                    pass      # aliased through the bitmap
                else:
                    raise EvalError(f"port {pname} of {t} is not declared as a port")
        else:
            # foreign instance: outputs unknown
            self.warnings.append(f"foreign cell {t} not evaluated")

    def alias(self, a, b):
        """Bidirectional net between a submodule inout port and the parent's net: defined side wins."""
        av, ax = self.read(a)
        bv, bx = self.read(b)
        w = self.width_of(a)
        # prefer defined bits; when both defined keep b (outer) unless it equals
        nv = (av & ~ax) | (bv & ~bx & ax)
        nx = ax & bx
        c1 = self.write(a, (nv, nx))
        c2 = self.write(b, (nv, nx))
        return c1 or c2

    def write_external(self, y):
        v = x = 0
        pos = 0
        for c in y:
            w = c[3]
            if c[0] == "w" and c[1] in self.ext:
                ev, ex = self.ext[c[1]]
                m = (1 << w) - 1
                v |= ((ev >> c[2]) & m) << pos
                x |= ((ex >> c[2]) & m) << pos
            else:
                x |= ((1 << w) - 1) << pos
            pos += w
        return self.write(y, (v, x))

    def memory_of(self, scope, cell):
        mid = self.param(cell, "MEMID")
        name = mid.value if mid.kind == "str" else None
        if name not in scope.mems:
            raise EvalError(f"cell {cell.name} refers to unknown memory {name!r}")
        return scope.mems[name]

    def add_process(self, scope, proc):
        def conv(case):
            return {"pats": case.patterns,
                    "assigns": [(self.chunks(scope, l), self.chunks(scope, r)) for (l, r, ln) in case.assigns],
                    "switches": [{"sel": self.chunks(scope, sw.sel), "cases": [conv(cs) for cs in sw.cases]} for sw in case.switches]}
        root = conv(proc.root)

        def targets(case, acc):
            for l, r in case["assigns"]:
                acc.append(l)
            for sw in case["switches"]:
                for cs in sw["cases"]:
                    targets(cs, acc)
            return acc
        all_targets = targets(root, [])

        def run():
            tainted = [False]
            pending = []

            def exec_case(case):
                for l, r in case["assigns"]:
                    pending.append((l, self.read(r)))
                for sw in case["switches"]:
                    sv, sx = self.read(sw["sel"])
                    n = self.width_of(sw["sel"])
                    for cs in sw["cases"]:
                        hit = not cs["pats"]
                        for pat in cs["pats"]:
                            ok = True
                            if len(pat) != n:
                                raise EvalError("case pattern width differs from selector width")
                            for i, ch in enumerate(pat):
                                if ch in "01":
                                    if (sx >> i) & 1:
                                        tainted[0] = True
                                        ok = False
                                        break
                                    if ((sv >> i) & 1) != int(ch):
                                        ok = False
                                        break
                            if ok:
                                hit = True
                                break
                        if hit:
                            exec_case(cs)
                            break
            exec_case(root)
            changed = False
            if tainted[0]:
                for l in all_targets:
                    changed |= self.write(l, (0, C.mask(self.width_of(l))))
                return changed
            # later assignments override earlier ones: apply in order on a scratch copy
            for l, val in pending:
                changed |= self.write(l, val)
            return changed
        # To get "last wins" without transient glitches influencing change detection we evaluate
        # into the wires directly; a sweep re-runs until stable anyway.
        self.comb.append(run)

    # ---- simulation ---------------------------------------------------------------------------
    def initial(self):
        for ff in self.ffs:
            self.write(ff["q"], ff["init"])
        for p in self.mem_ports:
            if p["kind"] == "rd":
                self.write(p["data"], (0, C.mask(p["w"])))
        self.settle_comb()
        for ff in self.ffs:
            ff["prev"] = self.read(ff["clk"])
            ff["prev_arst"] = self.read(ff["arst"]) if ff["arst"] is not None else None
        for p in self.mem_ports:
            p["prev"] = self.read(p["clk"])
        # asynchronous resets that are asserted at time zero
        self.step()

    def settle_comb(self):
        # Processes write default-then-override into the wires, so one pass can report "changed"
        # although the final values are the same; compare snapshots instead.
        for sweep in range(200):
            before = (list(self.w_val), list(self.w_x))
            for el in self.comb:
                el()
            if before[0] == self.w_val and before[1] == self.w_x:
                return
        raise EvalError("combinational logic did not settle (oscillation or cycle)")

    def set(self, name, value, x=0):
        wid = self.top_scope.wid.get(name if name[0] in "\\$" else "\\" + name)
        if wid is None:
            raise EvalError(f"no top-level wire {name}")
        w = self.w_width[wid]
        v = value & C.mask(w)
        wire = self.top_scope.module.wires[self.wire_key(name)]
        if wire.port_kind == "inout":
            self.ext[wid] = (v, x)
        self.w_val[wid], self.w_x[wid] = v & ~x, x

    def wire_key(self, name):
        return name if name[0] in "\\$" else "\\" + name

    @staticmethod
    def edge(prev, now, pol):
        (pv, px), (nv, nx) = prev, now
        if (px | nx) & 1:
            return None
        if pol:
            return (pv & 1) == 0 and (nv & 1) == 1
        return (pv & 1) == 1 and (nv & 1) == 0

    def step(self):
        for it in range(100):
            self.settle_comb()
            updates = []
            any_trigger = False
            for ff in self.ffs:
                now = self.read(ff["clk"])
                e = self.edge(ff["prev"], now, ff["pol"])
                ff["prev"] = now
                nxt = None
                if e is None:
                    nxt = (0, C.mask(ff["w"]))
                elif e:
                    nxt = self.read(ff["d"])
                if ff["arst"] is not None:
                    av, ax = self.read(ff["arst"])
                    if ax & 1:
                        nxt = (0, C.mask(ff["w"]))
                    elif (av & 1) == (1 if ff["arst_pol"] else 0):
                        nxt = ff["arst_val"]
                if nxt is not None:
                    updates.append((ff["q"], nxt))
            mem_writes = {}
            rd_updates = []
            trig_rd = []
            for p in self.mem_ports:
                now = self.read(p["clk"])
                e = self.edge(p["prev"], now, p["pol"])
                p["prev"] = now
                p["fired"] = bool(e)
                if e is None:
                    e = False
                    p["fired"] = False
                if not e:
                    continue
                mem = p["mem"]
                if p["kind"] == "wr":
                    av, ax = self.read(p["addr"])
                    dv, dx = self.read(p["data"])
                    ev, ex = self.read(p["en"])
                    p["w_addr"], p["w_data"], p["w_en"] = (av, ax), (dv, dx), (ev, ex)
                    if ax:
                        if ev | ex:
                            mem_writes.setdefault(id(mem), (mem, []))[1].append(("all-x", ev | ex))
                        continue
                    if av < mem.size:
                        mem_writes.setdefault(id(mem), (mem, []))[1].append((av, dv, dx, ev, ex, p["id"]))
                else:
                    trig_rd.append(p)
            for p in trig_rd:
                mem = p["mem"]
                ev, ex = self.read(p["en"])
                if ex & 1:
                    rd_updates.append((p["data"], (0, C.mask(p["w"]))))
                    continue
                if not (ev & 1):
                    continue
                av, ax = self.read(p["addr"])
                if ax or av >= mem.size:
                    rd_updates.append((p["data"], (0, C.mask(p["w"]))))
                    continue
                rv, rx = mem.rows[av]
                # transparency: bits written at this edge by ports in the mask show the new data
                for wp in mem.wr_ports:
                    if not wp.get("fired"):
                        continue
                    if not ((p["trans"] >> wp["id"]) & 1):
                        # not transparent: a same-edge write to the same row leaves old data (defined)
                        continue
                    (wa, wax), (wd, wdx), (we, wex) = wp["w_addr"], wp["w_data"], wp["w_en"]
                    if wax:
                        rx |= we | wex
                        continue
                    if wa == av:
                        rv = (rv & ~we) | (wd & we)
                        rx = (rx & ~we) | (wdx & we) | wex
                rd_updates.append((p["data"], (rv & ~rx, rx)))
            changed = False
            for q, val in updates:
                changed |= self.write(q, val)
            for data, val in rd_updates:
                changed |= self.write(data, val)
            for mem, ws in mem_writes.values():
                # collect per row; conflicting bits from different ports -> undef
                per_row = {}
                for wrec in ws:
                    if wrec[0] == "all-x":
                        for r in range(mem.size):
                            v, x = mem.rows[r]
                            mem.rows[r] = (v & ~wrec[1], x | wrec[1])
                        changed = True
                        continue
                    av, dv, dx, ev, ex, pid = wrec
                    per_row.setdefault(av, []).append((dv, dx, ev, ex))
                for av, lst in per_row.items():
                    v, x = mem.rows[av]
                    written = 0
                    wv = wx = 0
                    for (dv, dx, ev, ex) in lst:
                        both = written & ev
                        conflict = both & ((wv ^ dv) | wx | dx)
                        wv = (wv & ~ev) | (dv & ev)
                        wx = (wx & ~ev) | (dx & ev) | conflict | ex
                        written |= ev | ex
                    nv = (v & ~written) | (wv & written)
                    nx = (x & ~written) | (wx & written)
                    nv &= ~nx
                    if (nv, nx) != mem.rows[av]:
                        mem.rows[av] = (nv, nx)
                        changed = True
            if not changed:
                return
        raise EvalError("sequential settling did not terminate")

    def get(self, name):
        key = self.wire_key(name)
        wid = self.top_scope.wid.get(key)
        if wid is None:
            raise EvalError(f"no top-level wire {name}")
        return self.w_val[wid], self.w_x[wid]

    def get_path(self, path, name):
        scope = self.scopes.get(tuple(path))
        if scope is None:
            raise EvalError(f"no scope {path}")
        wid = scope.wid.get(self.wire_key(name))
        if wid is None:
            raise EvalError(f"no wire {name} in {path}")
        return self.w_val[wid], self.w_x[wid]

    def get_mem(self, path, name):
        scope = self.scopes.get(tuple(path))
        return list(scope.mems[self.wire_key(name)].rows)
