"""Independent reader for the RTLIL text format (the subset Amaranth can emit, strictly).

Grammar (Yosys `read_rtlil`, restricted to what the backend produces):

    file      := { attr* "module" ID EOL body "end" EOL }
    body      := { attr* ( wire | memory | cell | process ) | "connect" sigspec sigspec EOL }
    attr      := "attribute" ID const EOL
    wire      := "wire" { "width" INT | "input" INT | "output" INT | "inout" INT | "signed" } ID EOL
    memory    := "memory" { "width" INT | "size" INT } ID EOL
    cell      := "cell" ID ID EOL { "parameter" ["signed"|"real"] ID const EOL } { "connect" ID sigspec EOL } "end" EOL
    process   := "process" ID EOL casebody "end" EOL
    casebody  := { "assign" sigspec sigspec EOL } { "switch" sigspec EOL { attr* "case" [const {"," const}] EOL casebody } "end" EOL }
    sigspec   := const | ID [ "[" INT [ ":" INT ] "]" ] | "{" sigspec* "}"        (MSB first inside braces)
    const     := INT | INT "'" [01xzm-]* | STRING
    ID        := "\\" nonspace+ | "$" nonspace+

Anything else raises ParseError (a C07 violation: the document does not parse).
Bits are kept LSB first.  A sigspec is a list of bits: ('c', '0'|'1'|'x'|'z'|'-') or ('w', wire, index).
"""
import re


class ParseError(Exception):
    def __init__(self, lineno, msg, line=""):
        super().__init__(f"line {lineno}: {msg}: {line.strip()[:120]!r}")
        self.lineno, self.msg, self.line = lineno, msg, line


class Wire:
    def __init__(self, name, lineno):
        self.name, self.lineno = name, lineno
        self.width = 1
        self.port_kind = None
        self.port_id = None
        self.signed = False
        self.attrs = {}


class Memory:
    def __init__(self, name):
        self.name = name
        self.width = 1
        self.size = 0
        self.attrs = {}


class Cell:
    def __init__(self, type_, name, lineno):
        self.type, self.name, self.lineno = type_, name, lineno
        self.params = {}       # name -> (kind: 'plain'|'signed'|'real', Const)
        self.conns = {}        # port -> sigspec bits
        self.attrs = {}


class Const:
    """kind: 'int' (bare 32-bit integer), 'bits' (width'bits), 'str'"""
    def __init__(self, kind, value, width=None):
        self.kind, self.value, self.width = kind, value, width

    def bits(self):
        """LSB-first list of '0'/'1'/'x'... (bare integers are 32 bits wide)"""
        if self.kind == "bits":
            return list(self.value)
        if self.kind == "int":
            return [str((self.value >> i) & 1) for i in range(32)]
        raise ValueError("string constant has no bits")

    def as_int(self, signed=False):
        if self.kind == "int":
            return self.value
        if self.kind == "bits":
            if any(b not in "01" for b in self.value):
                return None
            v = sum(1 << i for i, b in enumerate(self.value) if b == "1")
            if signed and self.value and self.value[-1] == "1":
                v -= 1 << len(self.value)
            return v
        raise ValueError

    def __repr__(self):
        return f"Const({self.kind},{self.value!r})"


class Case:
    def __init__(self, patterns, lineno):
        self.patterns = patterns      # list of LSB-first bit lists; [] = default
        self.assigns = []             # [(lhs bits, rhs bits, lineno)]
        self.switches = []
        self.lineno = lineno


class Switch:
    def __init__(self, sel, lineno):
        self.sel, self.lineno = sel, lineno
        self.cases = []


class Process:
    def __init__(self, name, lineno):
        self.name, self.lineno = name, lineno
        self.root = Case([], lineno)
        self.attrs = {}


class Module:
    def __init__(self, name, lineno):
        self.name, self.lineno = name, lineno
        self.attrs = {}
        self.wires = {}
        self.memories = {}
        self.cells = {}
        self.processes = {}
        self.connects = []            # [(lhs bits, rhs bits, lineno)]
        self.names = []               # every declared object name, in order (for uniqueness)


class Document:
    def __init__(self):
        self.modules = {}
        self.module_order = []

    def top(self):
        for m in self.modules.values():
            if "top" in m.attrs:
                return m
        return None


_ID = re.compile(r"[\\$][^\s]+$")
_INT = re.compile(r"-?[0-9]+$")
_BITS = re.compile(r"([0-9]+)'([01xzm-]*)$")

_UNESC = {"n": "\n", "t": "\t", "r": "\r", "\\": "\\", '"': '"'}


def parse_string(tok, lineno, line):
    """tok includes the surrounding quotes; must be exactly one well-formed string literal."""
    assert tok[0] == '"'
    out = []
    i = 1
    while True:
        if i >= len(tok):
            raise ParseError(lineno, "unterminated string", line)
        c = tok[i]
        if c == '"':
            if i != len(tok) - 1:
                raise ParseError(lineno, "junk after string literal", line)
            return "".join(out)
        if c == "\\":
            i += 1
            if i >= len(tok):
                raise ParseError(lineno, "unterminated escape", line)
            e = tok[i]
            if e in _UNESC:
                out.append(_UNESC[e])
            elif e in "01234567":
                j = i
                while j < len(tok) and j < i + 3 and tok[j] in "01234567":
                    j += 1
                out.append(chr(int(tok[i:j], 8)))
                i = j - 1
            else:
                out.append(e)
        else:
            out.append(c)
        i += 1


def parse_const(tok, lineno, line):
    if tok.startswith('"'):
        return Const("str", parse_string(tok, lineno, line))
    m = _BITS.match(tok)
    if m:
        w = int(m.group(1))
        bits = m.group(2)
        if w == 0 and len(bits) == 1:
            bits = ""        # "0'0": how a zero-width constant is printed; read_rtlil truncates to the declared width
        if len(bits) != w:
            raise ParseError(lineno, f"constant declares {w} bits but has {len(bits)}", line)
        return Const("bits", bits[::-1], w)
    if _INT.match(tok):
        v = int(tok)
        if not (-(1 << 31) <= v < (1 << 31)):
            raise ParseError(lineno, "bare integer does not fit in 32 bits", line)
        return Const("int", v)
    raise ParseError(lineno, f"bad constant {tok!r}", line)


def tokenize_sigspec(text, lineno, line):
    """Split sigspec text into tokens: '{', '}', IDs, consts, '[..]' selectors."""
    toks = []
    for t in text.split():
        # a brace is a token of its own when it starts a token ("{}" is an empty concatenation)
        while t and t[0] in "{}":
            toks.append(t[0])
            t = t[1:]
        if t:
            toks.append(t)
    return toks


def parse_sigspec_tokens(toks, pos, lineno, line):
    """-> (bits LSB first, new pos). Uses wire-reference placeholders resolved later: ('w', name, idx|None...)"""
    if pos >= len(toks):
        raise ParseError(lineno, "missing sigspec", line)
    t = toks[pos]
    if t == "{":
        pos += 1
        parts = []
        while True:
            if pos >= len(toks):
                raise ParseError(lineno, "unterminated '{'", line)
            if toks[pos] == "}":
                pos += 1
                break
            bits, pos = parse_sigspec_tokens(toks, pos, lineno, line)
            parts.append(bits)
        out = []
        for bits in reversed(parts):     # braces list MSB chunk first
            out.extend(bits)
        return out, pos
    if t == "}":
        raise ParseError(lineno, "unexpected '}'", line)
    if t[0] in "\\$":
        if not _ID.match(t):
            raise ParseError(lineno, f"bad identifier {t!r}", line)
        name = t
        pos += 1
        if pos < len(toks) and toks[pos].startswith("["):
            sel = toks[pos]
            # selector may be split as "[3:0]" (one token)
            m = re.match(r"\[([0-9]+)(?::([0-9]+))?\]$", sel)
            if not m:
                raise ParseError(lineno, f"bad bit selector {sel!r}", line)
            hi = int(m.group(1))
            lo = int(m.group(2)) if m.group(2) is not None else hi
            if lo > hi:
                raise ParseError(lineno, f"reversed bit selector {sel!r}", line)
            pos += 1
            return [("w", name, i) for i in range(lo, hi + 1)], pos
        return [("W", name)], pos         # whole wire: expanded once the width is known
    c = parse_const(t, lineno, line)
    if c.kind == "str":
        raise ParseError(lineno, "string constant in sigspec", line)
    return [("c", b) for b in c.bits()], pos + 1


def parse(text):
    doc = Document()
    lines = text.split("\n")
    n = len(lines)
    i = 0
    pending_attrs = {}

    def err(msg):
        raise ParseError(i + 1, msg, lines[i] if i < n else "")

    def split_first(s):
        s = s.strip()
        parts = s.split(None, 1)
        return parts[0], (parts[1] if len(parts) > 1 else "")

    mod = None
    # state machine over lines; nested constructs parsed by helper loops
    while i < n:
        raw = lines[i]
        s = raw.strip()
        if not s or s.startswith("#"):
            i += 1
            continue
        kw, rest = split_first(s)
        if kw == "attribute":
            name, val = split_first(rest)
            if not _ID.match(name):
                err("bad attribute name")
            if name in pending_attrs:
                err(f"duplicate attribute {name}")
            pending_attrs[name[1:]] = parse_const(val.strip(), i + 1, raw)
            i += 1
            continue
        if mod is None:
            if kw == "autoidx":
                if not _INT.match(rest.strip()):
                    err("bad autoidx")
                i += 1
                continue
            if kw != "module":
                err("expected 'module'")
            name = rest.strip()
            if not _ID.match(name):
                err("bad module name")
            if name in doc.modules:
                err(f"duplicate module {name}")
            mod = Module(name, i + 1)
            mod.attrs = pending_attrs
            pending_attrs = {}
            doc.modules[name] = mod
            doc.module_order.append(name)
            i += 1
            continue
        # inside a module
        if kw == "end":
            if rest:
                err("junk after 'end'")
            if pending_attrs:
                err("dangling attributes before 'end'")
            mod = None
            i += 1
            continue
        if kw == "wire":
            toks = rest.split()
            if not toks:
                err("wire without a name")
            name = toks[-1]
            if not _ID.match(name):
                err("bad wire name")
            w = Wire(name, i + 1)
            j = 0
            opts = toks[:-1]
            seen = set()
            while j < len(opts):
                o = opts[j]
                if o in ("width", "input", "output", "inout", "offset"):
                    if j + 1 >= len(opts) or not _INT.match(opts[j + 1]):
                        err(f"wire option {o} needs an integer")
                    v = int(opts[j + 1])
                    if o == "width":
                        if "width" in seen:
                            err("duplicate width")
                        if v < 0:
                            err("negative width")
                        w.width = v
                    elif o == "offset":
                        pass
                    else:
                        if w.port_kind is not None:
                            err("several port directions")
                        w.port_kind, w.port_id = o, v
                    seen.add(o)
                    j += 2
                elif o == "signed":
                    w.signed = True
                    j += 1
                elif o == "upto":
                    j += 1
                else:
                    err(f"unknown wire option {o!r}")
            w.attrs = pending_attrs
            pending_attrs = {}
            mod.names.append(name)
            if name in mod.wires:
                err(f"duplicate wire {name}")
            mod.wires[name] = w
            i += 1
            continue
        if kw == "memory":
            toks = rest.split()
            if not toks or not _ID.match(toks[-1]):
                err("bad memory declaration")
            me = Memory(toks[-1])
            opts = toks[:-1]
            j = 0
            while j < len(opts):
                if opts[j] in ("width", "size", "offset") and j + 1 < len(opts) and _INT.match(opts[j + 1]):
                    if opts[j] == "width":
                        me.width = int(opts[j + 1])
                    elif opts[j] == "size":
                        me.size = int(opts[j + 1])
                    j += 2
                else:
                    err(f"unknown memory option {opts[j]!r}")
            me.attrs = pending_attrs
            pending_attrs = {}
            mod.names.append(me.name)
            if me.name in mod.memories:
                err("duplicate memory")
            mod.memories[me.name] = me
            i += 1
            continue
        if kw == "connect":
            toks = tokenize_sigspec(rest, i + 1, raw)
            lhs, p = parse_sigspec_tokens(toks, 0, i + 1, raw)
            rhs, p = parse_sigspec_tokens(toks, p, i + 1, raw)
            if p != len(toks):
                err("junk after connect")
            if pending_attrs:
                err("attributes before connect")
            mod.connects.append((lhs, rhs, i + 1))
            i += 1
            continue
        if kw == "cell":
            toks = rest.split()
            if len(toks) != 2 or not _ID.match(toks[0]) or not _ID.match(toks[1]):
                err("bad cell header")
            cell = Cell(toks[0], toks[1], i + 1)
            cell.attrs = pending_attrs
            pending_attrs = {}
            mod.names.append(cell.name)
            if cell.name in mod.cells:
                err("duplicate cell")
            mod.cells[cell.name] = cell
            i += 1
            seen_connect = False
            while True:
                if i >= n:
                    err("unterminated cell")
                raw = lines[i]
                s = raw.strip()
                if not s:
                    i += 1
                    continue
                kw2, rest2 = split_first(s)
                if kw2 == "end":
                    if rest2:
                        err("junk after 'end'")
                    i += 1
                    break
                if kw2 == "parameter":
                    if seen_connect:
                        pass   # Yosys accepts any order
                    kind = "plain"
                    name2, val2 = split_first(rest2)
                    if name2 in ("signed", "real"):
                        kind = name2
                        name2, val2 = split_first(val2)
                    if not _ID.match(name2):
                        err("bad parameter name")
                    if name2[1:] in cell.params:
                        err("duplicate parameter")
                    cell.params[name2[1:]] = (kind, parse_const(val2.strip(), i + 1, raw))
                elif kw2 == "connect":
                    seen_connect = True
                    name2, val2 = split_first(rest2)
                    if not _ID.match(name2):
                        err("bad port name")
                    if name2[1:] in cell.conns:
                        err("duplicate port connection")
                    toks2 = tokenize_sigspec(val2, i + 1, raw)
                    bits, p = parse_sigspec_tokens(toks2, 0, i + 1, raw)
                    if p != len(toks2):
                        err("junk after cell connect")
                    cell.conns[name2[1:]] = bits
                else:
                    err(f"unexpected {kw2!r} in cell")
                i += 1
            continue
        if kw == "process":
            name = rest.strip()
            if not _ID.match(name):
                err("bad process name")
            proc = Process(name, i + 1)
            proc.attrs = pending_attrs
            pending_attrs = {}
            mod.names.append(name)
            if name in mod.processes:
                err("duplicate process")
            mod.processes[name] = proc
            i += 1

            def parse_casebody(case):
                nonlocal i
                seen_switch = False
                attrs_pending = False
                while True:
                    if i >= n:
                        err("unterminated process")
                    raw = lines[i]
                    s = raw.strip()
                    if not s:
                        i += 1
                        continue
                    kw2, rest2 = split_first(s)
                    if kw2 == "assign":
                        if seen_switch:
                            err("'assign' after 'switch' inside one case body")
                        toks2 = tokenize_sigspec(rest2, i + 1, raw)
                        lhs, p = parse_sigspec_tokens(toks2, 0, i + 1, raw)
                        rhs, p = parse_sigspec_tokens(toks2, p, i + 1, raw)
                        if p != len(toks2):
                            err("junk after assign")
                        case.assigns.append((lhs, rhs, i + 1))
                        i += 1
                    elif kw2 == "attribute":
                        i += 1     # attributes on switch/case: accepted, ignored
                    elif kw2 == "switch":
                        seen_switch = True
                        toks2 = tokenize_sigspec(rest2, i + 1, raw)
                        sel, p = parse_sigspec_tokens(toks2, 0, i + 1, raw)
                        if p != len(toks2):
                            err("junk after switch")
                        sw = Switch(sel, i + 1)
                        case.switches.append(sw)
                        i += 1
                        while True:
                            if i >= n:
                                err("unterminated switch")
                            raw = lines[i]
                            s = raw.strip()
                            if not s:
                                i += 1
                                continue
                            kw3, rest3 = split_first(s)
                            if kw3 == "end":
                                if rest3:
                                    err("junk after 'end'")
                                i += 1
                                break
                            if kw3 == "attribute":
                                i += 1
                                continue
                            if kw3 != "case":
                                err(f"expected 'case' or 'end' in switch, got {kw3!r}")
                            pats = []
                            if rest3.strip():
                                for ptxt in rest3.split(","):
                                    c = parse_const(ptxt.strip(), i + 1, raw)
                                    if c.kind == "str":
                                        err("string pattern")
                                    pats.append(c.bits())
                            cs = Case(pats, i + 1)
                            sw.cases.append(cs)
                            i += 1
                            parse_casebody(cs)
                    else:
                        return
            parse_casebody(proc.root)
            raw = lines[i] if i < n else ""
            s = raw.strip()
            if s.split()[:1] == ["sync"]:
                err("sync rules are not part of the emitted subset")
            if s != "end":
                err("expected 'end' of process")
            i += 1
            continue
        err(f"unexpected keyword {kw!r}")
    if mod is not None:
        raise ParseError(n, "unterminated module", "")
    if pending_attrs:
        raise ParseError(n, "dangling attributes at end of file", "")
    # resolve whole-wire references now that widths are known
    for m in doc.modules.values():
        def resolve(bits, lineno):
            out = []
            for b in bits:
                if b[0] == "W":
                    w = m.wires.get(b[1])
                    if w is None:
                        out.append(("w", b[1], None))      # unknown wire: reported by the checker
                    else:
                        out.extend(("w", b[1], k) for k in range(w.width))
                else:
                    out.append(b)
            return out
        m.connects = [(resolve(l, ln), resolve(r, ln), ln) for (l, r, ln) in m.connects]
        for c in m.cells.values():
            c.conns = {k: resolve(v, c.lineno) for k, v in c.conns.items()}

        def walk(case):
            case.assigns = [(resolve(l, ln), resolve(r, ln), ln) for (l, r, ln) in case.assigns]
            for sw in case.switches:
                sw.sel = resolve(sw.sel, sw.lineno)
                for cs in sw.cases:
                    walk(cs)
        for p in m.processes.values():
            walk(p.root)
    return doc
