"""Co-simulation of one design in the Amaranth simulator and in the independent RTLIL evaluator
(C04), with the reference interpreter as third opinion."""
from . import design as D
from . import exprsim
from .common import exc_origin, mask
from .rtlil import parse as P
from .rtlil import eval as E


def convert(bd, form=None):
    """-> RTLIL text.  Ports are given either as a dict with explicit names and directions or as a plain
    list of signals (names and directions derived by the elaborator); the port names are the same."""
    from amaranth.back import rtlil
    from amaranth.hdl._ir import PortDirection
    ports = {}
    for k, s in enumerate(bd.inputs):
        ports[f"i{k}"] = (s, PortDirection.Input)
    ports["clk"] = (bd.cd.clk, PortDirection.Input)
    if bd.cd.rst is not None:
        ports["rst"] = (bd.cd.rst, PortDirection.Input)
    for name, o, key in bd.outs:
        ports[name] = (o, PortDirection.Output)
    if form is None:
        form = "dict" if (len(bd.outs) + len(bd.inputs)) % 3 else "list"
    if form == "list":
        return rtlil.convert(bd.top, ports=[v for (v, d) in ports.values()], emit_src=False)
    return rtlil.convert(bd.top, ports=ports, emit_src=False)


def run(design, steps, out, label="design", check_doc=None):
    """Co-simulate; append violations to out['violations']; returns RTLIL text or None."""
    from amaranth.hdl import Cat
    from amaranth.sim import Simulator
    viol = out["violations"]
    try:
        bd = D.build(design)
        text = convert(bd)
        bd2 = D.build(design)       # a fresh copy for the simulator (same IR, same construction)
        sim = Simulator(bd2.top)
    except Exception as ex:
        if exc_origin(ex) != "repo":
            raise
        viol.append({"mechanism": f"{label}-build-or-convert-exception:{type(ex).__name__}",
                     "detail": {"design": design, "exception": repr(ex)[:300]}})
        return None
    try:
        doc = P.parse(text)
    except P.ParseError as ex:
        viol.append({"mechanism": "rtlil-does-not-parse", "detail": {"design": design, "error": str(ex)[:300]}})
        return text
    if check_doc is not None:
        check_doc(doc, text, design)
    try:
        ev = E.Evaluator(doc)
    except E.EvalError as ex:
        viol.append({"mechanism": "rtlil-evaluator-rejects-document", "detail": {"design": design, "error": str(ex)[:300]}})
        return text
    for t, n in ev.cell_count.items():
        out["hist"]["cell:" + t] = out["hist"].get("cell:" + t, 0) + n
    ref = D.Ref(design)
    spec = bd.spec
    ienv = [x[:2] for x in spec.inputs]
    nbits = sum(w for w, s in ienv)
    incat = Cat(*bd2.inputs)
    stop = [False]

    def ev_inputs(vals):
        for k, ((w, s), v) in enumerate(zip(ienv, vals)):
            ev.set(f"i{k}", v & mask(w))

    async def tb(ctx):
        def compare(n):
            for (name, o, key), (_, o2, _) in zip(bd.outs, bd2.outs):
                sv = ctx.get(o2)
                w = len(o2)
                rv, rx = ev.get(name)
                out["evaluations"] += 1
                if rx:
                    out["extra"]["skipped_undef_bits"] += bin(rx).count("1")
                if (sv & mask(w) & ~rx) != (rv & ~rx):
                    exp = ref.value(key)
                    if exp is None:
                        exp = -1     # unspecified by the documented semantics (the two sides still have to agree)
                    who = "rtlil" if (sv & mask(w)) == (exp & mask(w)) else \
                          "simulator" if (rv == (exp & mask(w)) and not rx) else "both-differ-from-reference"
                    viol.append({"mechanism": f"simulator-vs-rtlil-mismatch:{who}",
                                 "detail": {"design": design, "steps": steps[:n + 1], "step": n, "output": name,
                                            "simulator": sv & mask(w), "rtlil": rv, "rtlil_undef": rx,
                                            "reference": exp & mask(w), "deviates": who}})
                    return False
            return True
        ev_inputs(ref.base.vals[:spec.ni])
        ev.set("clk", bd.idle)
        if bd.cd.rst is not None:
            ev.set("rst", 0)
        ev.step()
        if not compare(-1):
            return
        for n, st in enumerate(steps):
            if st[0] == "in":
                if nbits:
                    ctx.set(incat, exprsim.pack(ienv, st[1]))
                ev_inputs(st[1])
                ev.step()
                ref.set_inputs(st[1])
            else:
                rst = 1 if st[0] == "rst" else 0
                if rst:
                    ctx.set(bd2.cd.rst, 1)
                    ev.set("rst", 1)
                    ev.step()
                ctx.set(bd2.cd.clk, bd2.act)
                ev.set("clk", bd2.act)
                ev.step()
                ref.clock_edge(rst)
                # right after the active edge (before anything else happens) everything has settled
                if not compare(n):
                    return
                ctx.set(bd2.cd.clk, bd2.idle)
                ev.set("clk", bd2.idle)
                ev.step()
                if rst:
                    ctx.set(bd2.cd.rst, 0)
                    ev.set("rst", 0)
                    ev.step()
            if not compare(n):
                return
    sim.add_testbench(tb)
    try:
        sim.run()
        for t, n in ev.undef_sources.items():
            out["hist"]["undef-source:" + t] = out["hist"].get("undef-source:" + t, 0) + n
    except E.EvalError as ex:
        viol.append({"mechanism": "rtlil-evaluation-error", "detail": {"design": design, "error": str(ex)[:300]}})
    except Exception as ex:
        if exc_origin(ex) != "repo":
            raise
        viol.append({"mechanism": f"{label}-simulation-exception:{type(ex).__name__}",
                     "detail": {"design": design, "steps": steps, "exception": repr(ex)[:300]}})
    return text
