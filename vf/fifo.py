"""FIFO monitors (C12, C13): a bounded-queue reference model run next to the real simulator, driven
either by breadth-first exploration of the full reachable product state graph (implementation
state x monitor state) from inside one testbench, or by long random walks with uniquely tagged data.

The implementation state is re-entered through the public testbench API only (ctx.set on every
state-holding signal and memory row); clocks are pulsed by hand so clock levels are not state.
"""
import collections

from .common import exc_origin


def state_holders(sim):
    """All state-holding objects of the elaborated design: signals with a non-comb driver,
    synchronous read-port data signals, and memories."""
    from amaranth.hdl._mem import MemoryInstance
    sigs = []
    seen = set()
    mems = []

    def add(sig):
        if id(sig) not in seen:
            seen.add(id(sig))
            sigs.append(sig)
    for frag in sim._design.fragments:
        if isinstance(frag, MemoryInstance):
            mems.append(frag._data)
            for p in frag._read_ports:
                if p._domain != "comb":
                    for s in p._data._rhs_signals():
                        add(s)
        for dom, stmts in frag.statements.items():
            if dom == "comb":
                continue
            for st in stmts:
                for s in st._lhs_signals():
                    add(s)
    return sigs, mems


class Viol(Exception):
    def __init__(self, mech, **detail):
        self.mech = mech
        self.detail = detail


class QueueMonitor:
    """The bounded-queue reference (fiforef). State: tuple of held words (oldest first) and the
    number of consecutive post-edge observations in which the queue was non-empty but not readable."""

    def __init__(self, depth, buffered, sync):
        self.depth = depth
        self.buffered = buffered
        self.sync = sync

    def check_outputs(self, q, obs):
        """obs: dict(w_rdy, r_rdy, r_data, levels={name: value}).  Safety clauses that must hold in
        every observable state."""
        n = len(q)
        if obs["r_rdy"]:
            if n == 0:
                raise Viol("r_rdy-with-no-entry", held=0)
            if obs["r_data"] != q[0][0]:
                raise Viol("r_data-not-oldest", r_data=obs["r_data"], oldest=q[0][0], queue=[x[0] for x in q])
        if obs["w_rdy"] and n >= self.depth:
            raise Viol("w_rdy-when-full", held=n, depth=self.depth)
        for name, v in obs["levels"].items():
            if self.sync:
                if v != n:
                    raise Viol(f"level-mismatch:{name}", level=v, held=n)
            else:
                if not (0 <= v <= self.depth):
                    raise Viol(f"level-out-of-range:{name}", level=v, depth=self.depth)
        if self.sync:
            free = self.depth - n
            need = 2 if self.buffered else 1
            if free >= need and not obs["w_rdy"]:
                raise Viol("w_rdy-low-with-free-slots", free=free, held=n, depth=self.depth)


def find_fifo_signals(fifo):
    names = ["w_data", "w_rdy", "w_en", "r_data", "r_rdy", "r_en"]
    d = {n: getattr(fifo, n) for n in names}
    levels = {}
    for n in ("level", "r_level", "w_level"):
        if hasattr(fifo, n):
            levels[n] = getattr(fifo, n)
    return d, levels


class Explorer:
    """Breadth-first exploration of the reachable product graph inside one testbench."""

    def __init__(self, make, width, sync, buffered, max_states, letters_data=None):
        self.make = make
        self.width = width
        self.sync = sync
        self.buffered = buffered
        self.max_states = max_states
        self.stats = {"states": 0, "transitions": 0, "impl_states": 0, "max_occupancy": 0,
                      "max_wait": 0, "complete": False, "max_depth_path": 0, "restores": 0,
                      "coincident_events": 0, "drain_probes": 0, "max_drain_events": 0,
                      "pushes": 0, "pops": 0}
        self.violation = None

    def build(self):
        from amaranth.hdl import Module, ClockDomain, Cat
        from amaranth.sim import Simulator
        fifo = self.make()
        self.fifo = fifo
        self.depth = fifo.depth
        m = Module()
        m.submodules.dut = fifo
        if self.sync:
            self.cds = [ClockDomain("sync")]
            m.domains.sync = self.cds[0]
        else:
            wn, rn = getattr(self.make, "domains", None) or ("write", "read")
            wrl, rrl = getattr(self.make, "reset_less", None) or (False, False)
            self.cds = [ClockDomain(wn, reset_less=wrl), ClockDomain(rn, reset_less=rrl)]
            setattr(m.domains, wn, self.cds[0])
            setattr(m.domains, rn, self.cds[1])
        self.sim = Simulator(m)
        self.sigs, self.mems = state_holders(self.sim)
        self.io, self.levels = find_fifo_signals(fifo)
        self.clkcat = Cat(*[cd.clk for cd in self.cds])
        self.statecat = Cat(*self.sigs)
        self.state_bits = sum(len(s) for s in self.sigs)
        self.incat = Cat(self.io["w_en"], self.io["r_en"], self.io["w_data"])
        return self

    # --- inside the testbench ---------------------------------------------------------------
    def read_key(self, ctx):
        rows = tuple(ctx.get(md[i]) for md in self.mems for i in range(md.depth)) if self.width else ()
        return (ctx.get(self.statecat) if self.state_bits else 0, rows)

    def restore(self, ctx, key):
        self.stats["restores"] += 1
        if self.state_bits:
            ctx.set(self.statecat, key[0])
        if self.width:
            k = 0
            for md in self.mems:
                for i in range(md.depth):
                    if ctx.get(md[i]) != key[1][k]:
                        ctx.set(md[i], key[1][k])
                    k += 1

    def observe(self, ctx):
        return {"w_rdy": ctx.get(self.io["w_rdy"]), "r_rdy": ctx.get(self.io["r_rdy"]),
                "r_data": ctx.get(self.io["r_data"]),
                "levels": {n: ctx.get(s) for n, s in self.levels.items()}}

    def pulse(self, ctx, ev):
        ctx.set(self.clkcat, ev)
        ctx.set(self.clkcat, 0)

    def letters(self):
        datas = list(range(1 << self.width)) if self.width <= 2 else [0, 1, (1 << self.width) - 1]
        evs = [1] if self.sync else [1, 2, 3]
        out = []
        for ev in evs:
            for r_en in (0, 1):
                out.append((ev, 0, 0, r_en))
                for d in datas:
                    out.append((ev, 1, d, r_en))
        return out

    def step(self, ctx, mon, q, wait, letter):
        """Apply one letter from the current (already restored) state. -> (q', wait')"""
        ev, w_en, w_data, r_en = letter
        ctx.set(self.incat, w_en | (r_en << 1) | (w_data << 2))
        obs = self.observe(ctx)
        mon.check_outputs(q, obs)
        w_edge = ev & 1 if not self.sync else 1
        r_edge = (ev >> 1) & 1 if not self.sync else 1
        push = w_edge and w_en and obs["w_rdy"]
        pop = r_edge and r_en and obs["r_rdy"]
        q2 = q
        if pop:
            q2 = q2[1:]
            self.stats["pops"] += 1
        if push:
            if len(q) >= self.depth:
                raise Viol("write-accepted-when-full", held=len(q), depth=self.depth)
            q2 = q2 + ((w_data, 0),)
            self.stats["pushes"] += 1
        # right after the active edge(s) everything has settled: the outputs already describe q2
        ctx.set(self.clkcat, ev)
        try:
            mon.check_outputs(q2, self.observe(ctx))
        except Viol as v:
            v.detail["when"] = "right after the rising edge, before the clock falls"
            raise
        ctx.set(self.clkcat, 0)
        post = self.observe(ctx)
        mon.check_outputs(q2, post)
        if self.sync:
            if q2 and not post["r_rdy"]:
                # the oldest entry is not readable after this edge
                same_oldest = bool(q) and not pop
                wait2 = wait + 1 if same_oldest else 1
                if wait2 >= 3:
                    raise Viol("oldest-not-readable-within-two-cycles", waited_edges=wait2, queue=[x[0] for x in q2])
            else:
                wait2 = 0
            self.stats["max_wait"] = max(self.stats["max_wait"], wait2)
        else:
            wait2 = 0
        self.stats["max_occupancy"] = max(self.stats["max_occupancy"], len(q2))
        return q2, wait2

    def drain_probe(self, ctx, mon, q, bound, order):
        """Async: from the current state stop writing; after `bound` edges of both clocks the
        oldest entry must be readable (bounded progress)."""
        if not q:
            return
        ctx.set(self.incat, 0)
        n = 0
        for k in range(bound):
            for ev in order:
                if ctx.get(self.io["r_rdy"]):
                    break
                self.pulse(ctx, ev)
                n += 1
                mon.check_outputs(q, self.observe(ctx))
            else:
                continue
            break
        self.stats["drain_probes"] += 1
        self.stats["max_drain_events"] = max(self.stats["max_drain_events"], n)
        if not ctx.get(self.io["r_rdy"]):
            raise Viol("entry-not-readable-after-bounded-edges", bound_cycles_each_clock=bound,
                       queue=[x[0] for x in q], order=list(order))

    def explore(self, out, drain_bound=None, drain_every=1):
        mon = QueueMonitor(self.depth, self.buffered, self.sync)
        letters = self.letters()
        ex = self
        parents = {}
        self.parents = parents

        async def tb(ctx):
            key0 = ex.read_key(ctx)
            start = (key0, (), 0)
            seen = {start}
            parents[start] = None
            impl = {key0}
            frontier = collections.deque([start])
            cur = key0
            nstate = 0
            try:
                mon.check_outputs((), ex.observe(ctx))
                while frontier:
                    if len(seen) > ex.max_states:
                        return
                    st = frontier.popleft()
                    key, q, wait = st
                    nstate += 1
                    if drain_bound is not None and nstate % drain_every == 0 and q:
                        for order in ((2, 1), (1, 2), (3,)):
                            ex.restore(ctx, key)
                            try:
                                ex.drain_probe(ctx, mon, q, drain_bound, order)
                            except Viol as v:
                                v.detail["state_path"] = ex.path_to(st)
                                v.detail["then"] = "drain probe"
                                raise
                        cur = None
                    for letter in letters:
                        if cur != key:
                            ex.restore(ctx, key)
                        try:
                            q2, wait2 = ex.step(ctx, mon, q, wait, letter)
                        except Viol as v:
                            v.detail["state_path"] = ex.path_to(st) + [list(letter)]
                            raise
                        ex.stats["transitions"] += 1
                        if letter[0] == 3:
                            ex.stats["coincident_events"] += 1
                        cur = ex.read_key(ctx)
                        nxt = (cur, q2, wait2)
                        if nxt not in seen:
                            seen.add(nxt)
                            impl.add(cur)
                            parents[nxt] = (st, letter)
                            frontier.append(nxt)
                ex.stats["complete"] = True
            except Viol as v:
                ex.violation = v
            finally:
                ex.stats["states"] = len(seen)
                ex.stats["impl_states"] = len(impl)
        self.sim.add_testbench(tb)
        self.sim.run()
        return self

    def path_to(self, st):
        path = []
        while self.parents.get(st) is not None:
            st, letter = self.parents[st]
            path.append(list(letter))
        path.reverse()
        return path

    def audit_paths(self, nsample, rng):
        """Guards the restore shortcut: re-derive sampled states from reset by replaying their
        shortest input word in a fresh simulator; the implementation key must be the same."""
        states = list(self.parents)
        if not states:
            return 0, None
        picks = [states[rng.randrange(len(states))] for _ in range(nsample)]
        picks.append(max(states[-50:], key=lambda s: len(self.path_to(s))))
        bad = []
        depthmax = 0
        ex2 = Explorer(self.make, self.width, self.sync, self.buffered, 0).build()

        current = [None]

        async def tb(ctx):
            st = current[0]
            path = self.path_to(st)
            for (ev, w_en, w_data, r_en) in path:
                ctx.set(ex2.incat, w_en | (r_en << 1) | (w_data << 2))
                ex2.pulse(ctx, ev)
            got = ex2.read_key(ctx)
            # keys are comparable because signals are enumerated in the same design order
            if got != st[0]:
                bad.append({"path": path, "expected_key": list(map(str, st[0])), "got": list(map(str, got))})
        ex2.sim.add_testbench(tb)
        for st in picks:
            current[0] = st
            ex2.sim.reset()     # genuinely from the initial state: no restore shortcut involved
            ex2.sim.run()
        for st in picks:
            depthmax = max(depthmax, len(self.path_to(st)))
        self.stats["max_depth_path"] = depthmax
        return len(picks), (bad[0] if bad else None)


def random_walk(make, width, sync, buffered, nevents, rng, out_stats, drain_bound=None, schedule=None, reset_rate=0.0):
    """Long random walk with uniquely tagged entries (tag carried beside the data in the monitor)."""
    ex = Explorer(make, width, sync, buffered, 0).build()
    mon = QueueMonitor(ex.depth, buffered, sync)
    viol = [None]
    mask = (1 << width) - 1

    async def tb(ctx):
        q = ()
        wait = 0
        seq = 0
        phase_len = 0
        pw = pr = 0.5
        ratio = (1, 1)
        trace = collections.deque(maxlen=60)
        try:
            for n in range(nevents):
                if phase_len == 0:
                    phase_len = rng.randrange(5, 80)
                    mode = rng.choice(["fill", "drain", "pingpong", "mixed", "idle_w", "idle_r"])
                    pw, pr = {"fill": (0.95, 0.1), "drain": (0.1, 0.95), "pingpong": (1.0, 1.0),
                              "mixed": (0.5, 0.5), "idle_w": (0.0, 0.7), "idle_r": (0.8, 0.0)}[mode]
                    ratio = rng.choice([(1, 1), (1, 2), (2, 1), (1, 7), (7, 1), (3, 5), (1, 0), (0, 1)])
                    out_stats[f"phase:{mode}"] = out_stats.get(f"phase:{mode}", 0) + 1
                phase_len -= 1
                if sync:
                    ev = 1
                else:
                    x = rng.random()
                    if x < 0.15:
                        ev = 3
                    else:
                        tot = ratio[0] + ratio[1]
                        ev = 1 if rng.random() * tot < ratio[0] else 2
                if sync and reset_rate and rng.random() < reset_rate:
                    # the domain's reset held over one clock edge with both strobes low: the queue is empty again
                    ctx.set(ex.incat, 0)
                    ctx.set(ex.cds[0].rst, 1)
                    ctx.set(ex.clkcat, 1)
                    ctx.set(ex.clkcat, 0)
                    ctx.set(ex.cds[0].rst, 0)
                    q, wait = (), 0
                    trace.append(["reset"])
                    out_stats["resets"] = out_stats.get("resets", 0) + 1
                    try:
                        mon.check_outputs(q, ex.observe(ctx))
                    except Viol as v:
                        v.detail["when"] = "right after a reset"
                        raise
                    continue
                w_en = int(rng.random() < pw)
                r_en = int(rng.random() < pr)
                w_data = seq & mask
                letter = (ev, w_en, w_data, r_en)
                trace.append(list(letter))
                q, wait = ex.step(ctx, mon, q, wait, letter)
                seq = ex.stats["pushes"]    # the next word carries the next sequence number
                out_stats[f"event:{ev}"] = out_stats.get(f"event:{ev}", 0) + 1
                if drain_bound is not None and rng.random() < 0.01 and q:
                    ex.drain_probe(ctx, mon, q, drain_bound, rng.choice([(1, 2), (2, 1), (3,)]))
        except Viol as v:
            v.detail["last_events"] = list(trace)
            viol[0] = v
    ex.sim.add_testbench(tb)
    ex.sim.run()
    ex.violation = viol[0]
    return ex
